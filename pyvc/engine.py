"""pyvc: verification-condition generator for a subset of Python (DESIGN 2.1).

Reads the *real* source of a function from /repo with `ast`, executes it symbolically path by path, cuts loops with
sidecar invariants, replaces calls to other repo functions by their contracts, and emits one obligation per
(path, contract clause).  Unsupported constructs raise `Unsupported` -- the function is then reported as outside the
proof rung; it is never silently skipped.
"""
from __future__ import annotations

import ast
import os
import copy
import hashlib
import textwrap
from dataclasses import dataclass, field
from types import SimpleNamespace
from typing import Any, Callable

import z3

from .spec import SYM, _has_ite, f_cnt, f_dot
from .types import (TRange, slice_indices_fn, slice_zero_step_fn, TBool, TDict, TInt, TNone, TNoneT, TObj, TOpaque, TOpt, TReal, TRec, TSeq, TSet, TSlice, TStr,
                    TTuple, TUnion, Ty, Val, VNone, fresh_name, unwrap, wrap)


class Unsupported(Exception):
    def __init__(self, msg: str, node: ast.AST | None = None):
        self.line = getattr(node, "lineno", None)
        super().__init__(f"{msg} (line {self.line})")


# --------------------------------------------------------------------------------------------------------
@dataclass
class LoopSpec:
    inv: Callable  # (S, a, v, k) -> dict[str, Bool]
    unroll: int | None = None
    # proof structure for the step of an arbitrary iteration k (evaluated in the state at the end of the body):
    hints: Callable | None = None  # (S, a, v, k) -> dict[str, Bool]: proved in order (obligations), then assumed
    facts: Callable | None = None  # (S, a, v, k) -> list[Bool]: instances of library lemmas (assumed; proved in lemmas.py)


@dataclass
class Contract:
    qualname: str  # "pipefunc/map/_mapspec.py::MapSpec.output_key"
    params: dict[str, Ty]
    returns: Ty | None = None
    requires: Callable | None = None  # (S, a) -> dict
    raises: list[tuple[str, Callable]] = field(default_factory=list)  # [(exc, (S,a)->Bool)]
    ensures: Callable | None = None  # (S, a, r, post) -> dict
    loops: dict[int, LoopSpec] = field(default_factory=dict)
    locals_: dict[str, Ty] = field(default_factory=dict)
    modifies: tuple[str, ...] = ()
    pure: bool = True  # result is a function of the arguments (modelled as an uninterpreted function)
    defaults: dict[str, Any] = field(default_factory=dict)
    trusted: bool = False  # contract of code that is NOT verified by the proof rung (assumption; listed)
    note: str = ""
    axioms: Callable | None = None  # (S, a) -> list of *definitional* axioms for spec arrays (see S.defarray)
    static: bool = False  # staticmethod: a call through an instance or the class does not pass the receiver
    cases: dict[str, Callable] = field(default_factory=dict)  # proof by cases: name -> (S,a)->Bool (must be exhaustive)
    vararg: str | None = None  # the parameter that is the function's *vararg (receives the tuple of extra positionals)
    star_call: bool = False  # contract of a *stored callable* `rec.field(*args, **kwargs)`: params = (rec, args, kwargs),
    #                          the starred positional and keyword collections are passed as opaque wholes

    @property
    def file(self) -> str:
        return self.qualname.split("::")[0]

    @property
    def name(self) -> str:
        return self.qualname.split("::")[1]

    @property
    def short(self) -> str:
        return self.name.split(".")[-1]


@dataclass
class Obligation:
    function: str
    name: str
    hyps: list
    goal: Any
    line: int | None
    kind: str  # 'post' | 'raise' | 'pre' | 'inv-init' | 'inv-step' | 'assert'
    exact: bool = True  # False if the path went through a loop invariant or a callee contract
    params: dict[str, Val] | None = None


class State:
    def __init__(self):
        self.env: dict[str, Val] = {}
        self.pc: list = []
        self.guards: list = []
        self.handlers: list = []  # stack of sinks for try/except
        self.qctx: list = []  # stack of quantified contexts (comprehension bodies)
        self.exact = True
        self.alias: dict = {}  # loop variable -> (sequence variable, index term): the variable IS that element
        self.borrowed: set = set()  # locals bound to an existing mutable object (x = self.d): mutating them is refused

    def copy(self) -> "State":
        s = State()
        s.env = dict(self.env)
        s.pc = list(self.pc)
        s.guards = list(self.guards)
        s.handlers = self.handlers  # shared sinks
        s.qctx = self.qctx
        s.exact = self.exact
        s.alias = dict(self.alias)
        s.borrowed = set(self.borrowed)
        if hasattr(self, "closures"):
            s.closures = self.closures
        return s

    def assume(self, c):
        if isinstance(c, bool):
            if c:
                return
            c = z3.BoolVal(False)
        if self.guards:
            c = z3.Implies(z3.And(*self.guards), c)
        self.pc.append(c)


@dataclass
class Exit:
    kind: str  # 'return' | 'raise'
    st: State
    value: Val | None
    exc: str | None
    line: int | None


OVERRIDES: dict = {}  # qualname -> FunctionDef; only filled by tools/mutation_selftest.py (mutants of the real text)


def extract_function(repo: str, qualname: str) -> tuple[ast.FunctionDef, dict]:
    """Locate the FunctionDef in the current working tree.  Returns node and provenance info."""
    if qualname in OVERRIDES:
        return OVERRIDES[qualname], {"file": "<mutant>", "qualname": qualname, "lines": [0, 0], "sha256": "mutant",
                                     "decorators_dropped": []}
    path, name = qualname.split("::")
    src = open(f"{repo}/{path}").read()
    tree = ast.parse(src)
    parts = name.split(".")
    body = tree.body
    node = None
    for p in parts:
        node = next((n for n in body if isinstance(n, (ast.FunctionDef, ast.ClassDef)) and n.name == p), None)
        if node is None:
            raise LookupError(f"{qualname} not found in {path}")
        body = node.body
    seg = ast.get_source_segment(src, node)
    deco = [ast.unparse(d) for d in node.decorator_list]
    info = {"file": path, "qualname": qualname, "lines": [node.lineno, node.end_lineno],
            "sha256": hashlib.sha256(seg.encode()).hexdigest(), "decorators_dropped": deco}
    return node, info


# --------------------------------------------------------------------------------------------------------
class Engine:
    def __init__(self, repo: str, registry: dict[str, Contract], feasibility_ms: int = 3000):
        self.repo = repo
        self.registry = registry  # name -> Contract   ("shape_to_strides", "MapSpec.external_indices")
        self.feas_ms = feasibility_ms
        self.feas_rlimit = 20_000_000
        self._sink_marks: dict = {}
        self.base_axioms: list = []
        self.pure_fns: dict[str, z3.FuncDeclRef] = {}

    # ---- public -------------------------------------------------------------------------------------
    def vcs(self, c: Contract, case: str | None = None) -> tuple[list[Obligation], dict]:
        node, info = extract_function(self.repo, c.qualname)
        self.c = c
        self.obls: list[Obligation] = []
        self.exits: list[Exit] = []
        self.loop_ids: dict[int, int] = {}
        n = 0
        for sub in ast.walk(node):
            if isinstance(sub, (ast.For, ast.While)):
                pass
        # loop ordinals in source order (ast.walk is BFS; sort by position)
        loops = sorted((s for s in ast.walk(node) if isinstance(s, (ast.For, ast.While))),
                       key=lambda s: (s.lineno, s.col_offset))
        for i, s in enumerate(loops):
            self.loop_ids[id(s)] = i
        info["loops"] = len(loops)
        st = State()
        self.params: dict[str, Val] = {}
        self.local_alias = self._renamed_locals(node, c)
        self.callee_facts: dict = {}  # postconditions of callee contracts that were assumed (for the vacuity guards)
        argnames = [a.arg for a in node.args.posonlyargs + node.args.args + node.args.kwonlyargs]
        if node.args.vararg:
            argnames.append(node.args.vararg.arg)
        if (node.args.vararg.arg if node.args.vararg else None) != c.vararg:
            raise Unsupported(f"the contract's vararg ({c.vararg}) is not the signature's", node)
        for p in argnames:
            if p not in c.params:
                raise Unsupported(f"parameter {p} has no sort in the contract", node)
        for p, ty in c.params.items():
            v = ty.fresh(p)
            st.env[p] = v
            self.params[p] = v
            st.pc += ty.wf(v.t) if not isinstance(ty, TTuple) else ty.wf(v.t)
        self.pre = self._ns(self.params)
        # the defaults the contract gives to callers must be the ones in the signature
        pos = node.args.posonlyargs + node.args.args
        sig_defaults = dict(zip([a.arg for a in pos[len(pos) - len(node.args.defaults):]], node.args.defaults))
        sig_defaults.update({a.arg: d for a, d in zip(node.args.kwonlyargs, node.args.kw_defaults) if d is not None})
        for p, d in sig_defaults.items():
            if p in c.defaults and isinstance(d, ast.Constant):
                same = type(d.value) is type(c.defaults[p]) and d.value == c.defaults[p]
                self.obls.append(Obligation(c.name, f"default[{p}] is the signature's", [], z3.BoolVal(same),
                                            node.lineno, "assert", True, self.params))
        if c.requires:
            for _, cl in c.requires(SYM, self.pre).items():
                st.pc.append(cl)
        if c.axioms:
            st.pc += list(c.axioms(SYM, self.pre))
        if case is not None:
            st.pc.append(c.cases[case](SYM, self.pre))
        self.case = case
        self.pre_pc = list(st.pc)
        if not self.feasible(st):
            raise Unsupported("vacuous: the preconditions / definitional axioms of the contract contradict each other", node)
        body = node.body
        if body and isinstance(body[0], ast.Expr) and isinstance(getattr(body[0], "value", None), ast.Constant) \
                and isinstance(body[0].value.value, str):
            body = body[1:]  # docstring
        outs = self.exec_block(body, st)
        for s, flow in outs:
            if flow is None:
                self.exits.append(Exit("return", s, VNone, None, node.end_lineno))
            else:
                raise Unsupported(f"{flow} outside loop", node)
        # vacuity guard: the assumptions collected on the way to an exit (path conditions, loop invariants, assumed callee
        # contracts) must not contradict each other - everything would be "proved" of such a path.  Infeasible branches
        # are pruned where they fork, so a contradiction here comes from an assumed contract or an invariant.
        for ex in self.exits:
            # (exceptional exits are created under the condition of the implicit exception, which is often excluded by
            #  what is known: those are simply unreachable)
            if ex.kind == "return" and not self.feasible(ex.st) and self._feasible_without_callee_facts(ex.st):
                raise Unsupported(f"vacuous: the assumptions on the path to the {ex.kind} at line {ex.line} contradict "
                                  f"each other (an assumed contract or invariant excludes the path)", node)
        for ex in self.exits:
            self._check_exit(ex)
        info["paths"] = len(self.exits)
        return self.obls, info

    # ---- helpers ------------------------------------------------------------------------------------
    @staticmethod
    def _renamed_locals(node, c) -> dict:
        """Contracts name the accumulators of a function (locals_: the sort of `result = []`; loop invariants talk about
        `v.result`).  When such a local has been renamed in the source, the contract's name matches no variable any more.
        The roles are re-attached by kind and order of first appearance: the k-th accumulator initialised with an empty
        list (dict) literal that the contract does not know gets the k-th unmatched list (dict) role.  A wrong match can
        only make obligations fail (the invariants are still proved of the code as it is), never pass.
        -> {actual variable name: role name in the contract}"""
        assigned = {n.id for n in ast.walk(node) if isinstance(n, ast.Name) and isinstance(n.ctx, ast.Store)}
        assigned |= {a.arg for a in node.args.posonlyargs + node.args.args + node.args.kwonlyargs}
        orphans = {"list": [r for r, t in c.locals_.items() if r not in assigned and isinstance(t, TSeq)],
                   "dict": [r for r, t in c.locals_.items() if r not in assigned and isinstance(t, (TDict, TRec))]}
        if not orphans["list"] and not orphans["dict"]:
            return {}
        untyped: dict[str, list] = {"list": [], "dict": []}
        stmts = sorted((n for n in ast.walk(node) if isinstance(n, (ast.Assign, ast.AnnAssign))),
                       key=lambda n: (n.lineno, n.col_offset))
        for n in stmts:
            tgt = n.targets[0] if isinstance(n, ast.Assign) and len(n.targets) == 1 else getattr(n, "target", None)
            val = n.value
            if not isinstance(tgt, ast.Name) or tgt.id in c.locals_ or val is None:
                continue
            kind = "list" if isinstance(val, ast.List) and not val.elts else \
                "dict" if isinstance(val, ast.Dict) and not val.keys else None
            if kind and tgt.id not in untyped[kind]:
                untyped[kind].append(tgt.id)
        alias = {}
        for kind in ("list", "dict"):
            if len(untyped[kind]) == len(orphans[kind]):
                alias.update(dict(zip(untyped[kind], orphans[kind])))
        return alias

    def _local_ty(self, name: str):
        """The declared sort of a local (through the role it plays when it was renamed)."""
        return self.c.locals_.get(name) or self.c.locals_.get(getattr(self, "local_alias", {}).get(name, ""))

    def _ns(self, env: dict[str, Val], **extra) -> SimpleNamespace:
        d = {k: unwrap(v) for k, v in env.items() if isinstance(v, Val)}
        for actual, role in getattr(self, "local_alias", {}).items():
            if actual in d and role not in d:
                d[role] = d[actual]
        d.update(extra)
        return SimpleNamespace(**d)

    def oblige(self, st: State, name: str, goal, line, kind):
        hyps = list(st.pc) + list(st.guards)
        if getattr(self, "case", None):
            name = f"{self.case}:{name}"
        self.obls.append(Obligation(self.c.name, name, hyps, goal, line, kind, st.exact, self.params))

    def _check_exit(self, ex: Exit):
        c = self.c
        st = ex.st
        a = self.pre
        if ex.kind == "return":
            for exc, condfn in c.raises:
                self.oblige(st, f"returns-only-when-not[{exc}]", z3.Not(condfn(SYM, a)), ex.line, "post")
            if c.ensures:
                post = self._ns({p: st.env[p] for p in c.modifies})
                # ghost: the final values of the locals (a postcondition may name the witness of an existential, e.g.
                # the argument dict that was built and handed to a callee); not available on the bounded rung
                post._locals = self._ns({k: v for k, v in st.env.items() if k not in c.params and "." not in k})
                r = ex.value
                if c.returns is not None and not isinstance(c.returns, TNoneT):
                    r = self.coerce(r, c.returns, st, None)
                for name, cl in c.ensures(SYM, a, unwrap(r), post).items():
                    self.oblige(st, f"ensures[{name}]", cl, ex.line, "post")
        else:
            conds = [condfn(SYM, a) for exc, condfn in c.raises if exc == ex.exc]
            goal = z3.Or(*conds) if conds else z3.BoolVal(False)
            self.oblige(st, f"raises[{ex.exc}]-only-when-specified", goal, ex.line, "raise")

    def feasible(self, st: State) -> bool:
        """Cheap path pruning: only the quantifier-free part of the path condition is consulted (sound: a path is
        dropped only if that part alone is unsatisfiable)."""
        s = z3.Solver()
        # a deterministic resource limit instead of wall-clock time: the verdict must not depend on how busy the machine
        # is (a path wrongly kept as feasible leads into code the contract excludes)
        s.set("rlimit", self.feas_rlimit)
        for h in st.pc:
            if not _has_quantifier(h):
                s.add(h)
        import time as _time
        for _ in range(6):
            t0 = _time.time()
            r = s.check()
            # z3's cancel flag is shared by all solvers of a context: a timer of an earlier, timed-out query can fire late
            # and "cancel" an unrelated later one at once.  Such a spurious answer is immediate: ask again.
            if not (r == z3.unknown and s.reason_unknown() == "canceled" and _time.time() - t0 < 0.25):
                break
        if r == z3.unknown and os.environ.get("PYVC_FEAS_DEBUG"):
            with open(os.environ["PYVC_FEAS_DEBUG"], "a") as fh:
                fh.write(f"{self.c.name} unknown: {s.reason_unknown()} nassert={len(s.assertions())}\n")
                if os.environ.get("PYVC_FEAS_DUMP"):
                    fh.write(s.to_smt2()[-3000:] + "\n----\n")
        if os.environ.get("PYVC_FEAS_STATS"):
            try:
                used = s.statistics().get_key_value("rlimit count")
            except Exception:  # noqa: BLE001
                used = -1
            with open(os.environ["PYVC_FEAS_STATS"], "a") as fh:
                fh.write(f"{used} {r}\n")
        return r != z3.unsat

    def _feasible_without_callee_facts(self, st: State) -> bool:
        """A path that is unreachable by the function's own conditions is dead code; one that only becomes unreachable
        through what a callee's contract promised is suspicious (a contradictory assumed contract)."""
        s2 = st.copy()
        s2.pc = [h for h in st.pc if h.get_id() not in self.callee_facts]
        return self.feasible(s2)

    def do_raise(self, st: State, exc: str, line, cond=None):
        """Record an exceptional exit under `cond` (None = unconditional)."""
        s = st.copy()
        if cond is not None:
            s.pc.append(z3.And(*st.guards, cond) if st.guards else cond)
        elif st.guards:
            s.pc.append(z3.And(*st.guards))
        s.guards = []
        if st.handlers:
            st.handlers[-1].append((s, exc, line))
        else:
            self.exits.append(Exit("raise", s, None, exc, line))

    def raise_if(self, st: State, cond, exc: str, line):
        cond = z3.simplify(cond) if z3.is_expr(cond) else z3.BoolVal(bool(cond))
        if z3.is_false(cond):
            return
        if st.qctx:
            st.qctx[-1].append((z3.And(*st.guards, cond) if st.guards else cond, exc, line))
            # (as in do_raise_q: the assumptions made in the body so far are known for the element that raises here)
            self._sink_marks.setdefault(id(st.qctx[-1]), []).append(len(st.pc))
            return
        self.do_raise(st, exc, line, cond)
        st.assume(z3.Not(cond))

    # ---- statements ---------------------------------------------------------------------------------
    def exec_block(self, stmts: list[ast.stmt], st: State) -> list[tuple[State, Any]]:
        """Returns the list of (state, flow) with flow in {None, 'break', 'continue'}."""
        live = [st]
        done: list[tuple[State, Any]] = []
        for stmt in stmts:
            nxt = []
            for s in live:
                for s2, flow in self.exec_stmt(stmt, s):
                    if flow is None:
                        nxt.append(s2)
                    else:
                        done.append((s2, flow))
            live = nxt
            if not live:
                break
        return [(s, None) for s in live] + done

    def exec_stmt(self, node: ast.stmt, st: State) -> list[tuple[State, Any]]:
        m = getattr(self, "s_" + type(node).__name__, None)
        if m is None:
            raise Unsupported(f"statement {type(node).__name__}", node)
        return m(node, st)

    def s_FunctionDef(self, node, st):
        """A nested helper `def f(a, b): <assignments>; return <expr>` (no branching, no loops): remembered and inlined
        where it is called.  Anything else is outside the subset."""
        body = [b for b in node.body if not (isinstance(b, ast.Expr) and isinstance(b.value, ast.Constant))]
        ok = body and isinstance(body[-1], ast.Return) and body[-1].value is not None and \
            all(isinstance(b, (ast.Assign, ast.AnnAssign)) for b in body[:-1]) and not node.decorator_list and \
            not node.args.vararg and not node.args.kwarg and not node.args.kwonlyargs and not node.args.defaults
        if not ok:
            raise Unsupported("nested function definition (only straight-line helpers are inlined)", node)
        st.closures = dict(getattr(st, "closures", {}))
        st.closures[node.name] = (node, body)
        return [(st, None)]

    def _inline_closure(self, name: str, call: ast.Call, st: State):
        node, body = st.closures[name]
        params = [a.arg for a in node.args.args]
        if call.keywords or len(call.args) != len(params) or any(isinstance(a, ast.Starred) for a in call.args):
            raise Unsupported("call of a nested helper with other than plain positional arguments", call)
        args = [self.eval(a, st) for a in call.args]
        saved = {p_: st.env.get(p_) for p_ in params}
        assigned = {t.id for b in body[:-1] for t in (b.targets if isinstance(b, ast.Assign) else [b.target])
                    if isinstance(t, ast.Name)}
        saved.update({n_: st.env.get(n_) for n_ in assigned})
        try:
            for p_, v in zip(params, args):
                st.env[p_] = v
            for b in body[:-1]:
                val = self.eval(b.value, st)
                tgts = b.targets if isinstance(b, ast.Assign) else [b.target]
                for t in tgts:
                    if not isinstance(t, ast.Name):
                        raise Unsupported("nested helper assigning to a non-local target", b)
                    st.env[t.id] = val
            return self.eval(body[-1].value, st)
        finally:  # the helper's parameters and locals do not leak into the caller's scope
            for n_, v in saved.items():
                if v is None:
                    st.env.pop(n_, None)
                else:
                    st.env[n_] = v

    def s_ImportFrom(self, node, st):
        return [(st, None)]  # (names are resolved through the contract registry, not through imports)

    def s_Import(self, node, st):
        return [(st, None)]

    def s_Pass(self, node, st):
        return [(st, None)]

    def s_Expr(self, node, st):
        if isinstance(node.value, ast.Constant):
            return [(st, None)]
        self.eval(node.value, st)
        return [(st, None)]

    def s_Assign(self, node, st):
        hint = self._local_hint(node.targets[0]) if len(node.targets) == 1 else None
        v = self.eval(node.value, st, hint=hint)
        for tgt in node.targets:
            self.assign(tgt, v, st, node)
            if isinstance(tgt, ast.Name) and isinstance(node.value, (ast.Name, ast.Attribute, ast.Subscript)) and \
                    _mutable_kind(v):
                src = node.value
                if isinstance(src, ast.Subscript) and isinstance(src.value, ast.Name) and src.value.id in st.env and \
                        isinstance(st.env[src.value.id].ty, TDict) and src.value.id != tgt.id:
                    # x = d[k]: x IS the value stored under k (a mutation of x is a mutation of d[k]) - until d is
                    # written by subscript again (see assign)
                    dty = st.env[src.value.id].ty
                    key = self.coerce(self.eval(src.slice, st), dty.key, st, node)
                    st.alias[tgt.id] = (src.value.id, key.t)
                else:
                    st.borrowed.add(tgt.id)  # a second name for an existing object: value semantics would lose its mutations
        return [(st, None)]

    def s_AnnAssign(self, node, st):
        if node.value is None:
            return [(st, None)]
        # annotation dropped; element sorts of empty literals come from contract.locals_
        v = self.eval(node.value, st, hint=self._local_hint(node.target))
        self.assign(node.target, v, st, node)
        return [(st, None)]

    def _local_hint(self, tgt):
        if isinstance(tgt, ast.Name):
            return self._local_ty(tgt.id)
        return None

    def s_AugAssign(self, node, st):
        cur = self.eval(node.target, st)
        rhs = self.eval(node.value, st)
        v = self.binop(node.op, cur, rhs, st, node)
        # `lst += x` extends a list in place (a mutation of the object), `n += 1` rebinds
        self.assign(node.target, v, st, node, writeback=isinstance(cur.ty, TSeq) and bool(cur.mut))
        return [(st, None)]

    def s_Return(self, node, st):
        v = self.eval(node.value, st) if node.value is not None else VNone
        self.exits.append(Exit("return", st, v, None, node.lineno))
        return []

    def s_Raise(self, node, st):
        if node.exc is None:
            raise Unsupported("bare raise", node)
        e = node.exc
        if isinstance(e, ast.Call):
            e = e.func
        if not isinstance(e, ast.Name):
            raise Unsupported("raise of a non-name", node)
        self.do_raise(st, e.id, node.lineno)
        return []

    def s_Assert(self, node, st):
        c = self.truthy(self.eval(node.test, st))
        self.raise_if(st, z3.Not(c), "AssertionError", node.lineno)
        for nm, rv in self.refinements(node.test, st, True).items():  # past the assert the test holds
            st.env[nm] = rv
        return [(st, None)]

    def refinements(self, test: ast.expr, st: State, positive: bool) -> dict[str, Val]:
        """Flow-sensitive refinement of a *name* by `isinstance(name, T)` on a union / `name is (not) None` on an
        Optional: in the branch where the test decides the alternative the name is rebound to its payload."""
        if isinstance(test, ast.UnaryOp) and isinstance(test.op, ast.Not):
            return self.refinements(test.operand, st, not positive)
        if isinstance(test, ast.BoolOp) and ((isinstance(test.op, ast.And) and positive)
                                             or (isinstance(test.op, ast.Or) and not positive)):
            acc: dict[str, Val] = {}  # every conjunct holds (every disjunct fails): all their refinements apply
            for sub in test.values:
                acc.update(self.refinements(sub, st, positive))
            return acc
        out: dict[str, Val] = {}
        if isinstance(test, ast.Call) and getattr(test.func, "id", None) == "isinstance" and len(test.args) == 2 \
                and _path_of(test.args[0]) is not None and (isinstance(test.args[0], ast.Attribute)
                                                             or test.args[0].id in st.env):
            pth = _path_of(test.args[0])
            try:
                v = self.eval(test.args[0], st)
            except Unsupported:
                return out
            test = ast.Call(func=test.func, args=[ast.Name(id=pth, ctx=ast.Load()), test.args[1]], keywords=[])
            st = st.copy()
            st.env[pth] = v
            t = test.args[1]
            names = [t.id] if isinstance(t, ast.Name) else [e.id for e in t.elts if isinstance(e, ast.Name)] \
                if isinstance(t, ast.Tuple) else []
            if isinstance(v.ty, TOpt) and positive and names:
                # isinstance(x, T) holds on an Optional[E]: x is not None (whether E is a T is decided by _isinst)
                out[test.args[0].id] = Val(v.ty.elem, v.ty.val(v.t), v.mut)
            if isinstance(v.ty, TUnion):
                tags = [tg for tg, _ in v.ty.alts]
                sup = getattr(v.ty, "supers", {})
                hit = [tg for tg in tags if tg in names or any(n in sup.get(tg, ()) for n in names)]
                remaining = [tg for tg in tags if tg not in hit] if not positive else hit
                if len(remaining) == 1 and v.ty.alt_ty(remaining[0]) is not None:
                    tg = remaining[0]
                    out[test.args[0].id] = Val(v.ty.alt_ty(tg), v.ty.get(tg, v.t), v.mut)
        if isinstance(test, ast.Compare) and len(test.ops) == 1 and isinstance(test.left, ast.Name) \
                and test.left.id in st.env and isinstance(test.comparators[0], ast.Constant) \
                and test.comparators[0].value is None:
            v = st.env[test.left.id]
            is_not = isinstance(test.ops[0], ast.IsNot)
            if isinstance(v.ty, TOpt) and (is_not == positive) and isinstance(test.ops[0], (ast.Is, ast.IsNot)):
                out[test.left.id] = Val(v.ty.elem, v.ty.val(v.t), v.mut)
        elif isinstance(test, ast.Compare) and len(test.ops) == 1 and isinstance(test.left, ast.Attribute) \
                and _path_of(test.left) is not None and isinstance(test.comparators[0], ast.Constant) \
                and test.comparators[0].value is None and isinstance(test.ops[0], (ast.Is, ast.IsNot)):
            # `obj.attr is (not) None` on an Optional field: the attribute path is narrowed (see e_Attribute)
            try:
                v = self.eval(test.left, st)
            except Unsupported:
                v = None
            if v is not None and isinstance(v.ty, TOpt) and (isinstance(test.ops[0], ast.IsNot) == positive):
                out[_path_of(test.left)] = Val(v.ty.elem, v.ty.val(v.t), v.mut)
        if isinstance(test, ast.Name) and test.id in st.env and positive and isinstance(st.env[test.id].ty, TOpt):
            v = st.env[test.id]  # `if x:` on an Optional: a truthy x is not None
            out[test.id] = Val(v.ty.elem, v.ty.val(v.t), v.mut)
        return out

    def s_If(self, node, st):
        c = self.truthy(self.eval(node.test, st))
        c = z3.simplify(c)
        outs = []
        if not z3.is_false(c):
            s1 = st.copy()
            s1.assume(c)
            if z3.is_true(c) or self.feasible(s1):
                s1.env.update(self.refinements(node.test, st, True))
                outs += self.exec_block(node.body, s1)
        if not z3.is_true(c):
            s2 = st.copy()
            s2.assume(z3.Not(c))
            if z3.is_false(c) or self.feasible(s2):
                s2.env.update(self.refinements(node.test, st, False))
                outs += self.exec_block(node.orelse, s2)
        return outs

    def s_With(self, node, st):
        for item in node.items:
            v = self.eval(item.context_expr, st)
            if not (isinstance(v.ty, TOpaque) and v.ty.name == "Lock"):
                raise Unsupported("with on a non-lock", node)
            if item.optional_vars is not None:
                raise Unsupported("with ... as", node)
        return self.exec_block(node.body, st)

    def s_Delete(self, node, st):
        for tgt in node.targets:
            if isinstance(tgt, ast.Subscript):
                base = self.eval(tgt.value, st)
                if isinstance(base.ty, TDict):
                    k = self.coerce(self.eval(tgt.slice, st), base.ty.key, st, node)
                    ty = base.ty
                    self.raise_if(st, z3.Not(z3.Select(ty.dom(base.t), k.t)), "KeyError", node.lineno)
                    new = ty.mk(z3.Store(ty.dom(base.t), k.t, False), ty.vals(base.t), ty.size(base.t) - 1)
                    self.assign(tgt.value, Val(ty, new, True), st, node, writeback=True)
                    continue
                if isinstance(base.ty, TSeq) and isinstance(tgt.slice, ast.Slice) and tgt.slice.lower is None \
                        and tgt.slice.upper is None and tgt.slice.step is None:
                    self.assign(tgt.value, Val(base.ty, base.ty.mk(z3.IntVal(0), base.ty.arr(base.t)), True), st, node, writeback=True)
                    continue
            raise Unsupported("del target", node)
        return [(st, None)]

    def s_Break(self, node, st):
        return [(st, "break")]

    def s_Continue(self, node, st):
        return [(st, "continue")]

    def s_Try(self, node, st):
        if node.finalbody:
            raise Unsupported("try/finally", node)
        sink: list = []
        st.handlers = st.handlers + [sink]
        outs = self.exec_block(node.body, st)
        res = []
        for s, flow in outs:
            s.handlers = s.handlers[:-1]
            if flow is None and node.orelse:
                res += self.exec_block(node.orelse, s)  # (the else block is outside the scope of the handlers)
            else:
                res.append((s, flow))
        outer = st.handlers[:-1]
        for s, exc, line in sink:
            s.handlers = outer
            handled = False
            for h in node.handlers:
                names = []
                if h.type is None:
                    names = None
                elif isinstance(h.type, ast.Name):
                    names = [h.type.id]
                elif isinstance(h.type, ast.Tuple):
                    names = [e.id for e in h.type.elts]
                if names is None or exc in names or "Exception" in names:
                    if h.name:
                        s.env[h.name] = TObj.fresh("exc")
                    res += self.exec_block(h.body, s)
                    handled = True
                    break
            if not handled:
                if outer:
                    outer[-1].append((s, exc, line))
                else:
                    self.exits.append(Exit("raise", s, None, exc, line))
        return res

    # ---- loops ---------------------------------------------------------------------------------------
    def s_For(self, node, st):
        if node.orelse:
            raise Unsupported("for/else", node)
        ordinal = self.loop_ids[id(node)]
        self._last_dict_order = None
        n, elem = self.eval_iter(node.iter, st)
        dorder = self._last_dict_order  # (captured now: loops in the body establish their own)
        if dorder is not None:
            st.env[f"order_of_loop{ordinal}"] = dorder  # ghost local: the enumeration of the keys this loop follows
        n_s = z3.simplify(n)
        spec = self.c.loops.get(ordinal)
        if spec is None or spec.unroll is not None:
            if z3.is_int_value(n_s):
                return self._unroll(node, st, n_s.as_long(), elem, dorder)
            if spec is None:
                raise Unsupported(f"loop #{ordinal} has no invariant in the contract", node)
            raise Unsupported("bounded unrolling of symbolic-length loops not enabled", node)
        srcs = self._alias_sources(node, st)
        mutated = _assigned(node.body) | {v for v in _mutated_receivers(node.body)
                                         if v in srcs and self._may_mutate(v, self._src_elem_ty(st.env[srcs[v]].ty), node.body)}
        mods = sorted(_assigned(node.body) | _target_names(node.target) | {q for v, q in srcs.items() if v in mutated})
        a = self.pre

        entry = self._ns(st.env)

        def at(i):
            """The item the loop binds in iteration i (tuples for zip/enumerate/items)."""
            def un(x):
                return tuple(un(y) for y in x) if isinstance(x, tuple) else unwrap(x)
            return un(elem(i))

        okey = (lambda i: unwrap(Val(dorder.ty.elem, z3.Select(dorder.ty.arr(dorder.t), i)))) if dorder is not None else None

        def inv(s: State, k):
            return spec.inv(SYM, a, self._ns(s.env, _n=n, _k=k, _entry=entry, _at=at, _okey=okey), k)

        # establishment
        for name, cl in inv(st, z3.IntVal(0)).items():
            self.oblige(st, f"loop{ordinal}-init[{name}]", cl, node.lineno, "inv-init")
        # arbitrary iteration
        body_st = st.copy()
        body_st.exact = False
        self._havoc(body_st, mods, st)
        k = z3.Int(fresh_name(f"k{ordinal}"))
        body_st.pc += [k >= 0, k < n]
        for cl in inv(body_st, k).values():
            body_st.pc.append(cl)
        results = []
        if self.feasible(body_st):
            self.bind(node.target, elem(k), body_st, node)
            for v, q in srcs.items():
                body_st.alias[v] = (q, self._alias_index(st.env[q], k, dorder))
            body_st.borrowed |= {t for t in _target_names(node.target) if t not in srcs and t in body_st.env
                                 and _mutable_kind(body_st.env[t])}
            for s, flow in self.exec_block(node.body, body_st):
                if flow in (None, "continue"):
                    ns_end = self._ns(s.env, _n=n, _k=k, _entry=entry, _at=at, _okey=okey)
                    if spec.facts is not None:
                        for f_ in spec.facts(SYM, a, ns_end, k):
                            s.assume(f_)
                    if spec.hints is not None:
                        for name, cl in spec.hints(SYM, a, ns_end, k).items():
                            self.oblige(s, f"loop{ordinal}-hint[{name}]", cl, node.lineno, "assert")
                            s.assume(cl)
                    for name, cl in inv(s, k + 1).items():
                        self.oblige(s, f"loop{ordinal}-step[{name}]", cl, node.lineno, "inv-step")
                elif flow == "break":
                    results.append((s, None))
        # exit
        ex = st.copy()
        ex.exact = False
        self._havoc(ex, mods, st)
        ex.pc.append(n >= 0)
        for cl in inv(ex, n).values():
            ex.pc.append(cl)
        results.append((ex, None))
        return results

    @staticmethod
    def _src_elem_ty(ty):
        return ty.val if isinstance(ty, TDict) else ty.elem

    def _alias_index(self, src: Val, k, o=None):
        """Where the k-th item of the iterated container lives: position k of a sequence, the k-th key (in the
        iteration order established by eval_iter) of a dict."""
        if isinstance(src.ty, TDict):
            if o is None:
                raise Unsupported("alias into a dict without an established iteration order")
            return z3.Select(o.ty.arr(o.t), k)
        return k

    def _may_mutate(self, var: str, elem_ty, body: list[ast.stmt]) -> bool:
        """Does the loop body possibly mutate the object bound to `var`?  Attribute stores do; a method call does unless
        its contract (looked up through the record type) declares no `modifies`."""
        for s_ in body:
            for n in ast.walk(s_):
                if isinstance(n, ast.Attribute) and isinstance(n.ctx, ast.Store) and isinstance(n.value, ast.Name) \
                        and n.value.id == var:
                    return True
                if isinstance(n, ast.Call) and isinstance(n.func, ast.Attribute) and isinstance(n.func.value, ast.Name) \
                        and n.func.value.id == var:
                    c = self.registry.get(f"{elem_ty.name}.{n.func.attr}") if isinstance(elem_ty, TRec) else None
                    if c is None or c.modifies:
                        return True
        return False

    def _alias_sources(self, node: ast.For, st: State) -> dict[str, str]:
        """Loop variables that are *the elements themselves* of a named sequence of mutable records:
        `for x in xs`, `for x, y in zip(xs, ys)`, `for i, x in enumerate(xs)` (and nestings of these).  A mutation of
        such a variable is a mutation of xs[k]; mutations of record-typed loop variables of any other origin are
        refused (see assign)."""
        out: dict[str, str] = {}

        def walk(it: ast.expr, tgt: ast.expr):
            if isinstance(it, ast.Name) and isinstance(tgt, ast.Name):
                v = st.env.get(it.id)
                if v is not None and isinstance(v.ty, TSeq) and isinstance(v.ty.elem, (TRec, TDict, TSet, TSeq)):
                    out[tgt.id] = it.id
            elif isinstance(it, ast.Call) and isinstance(it.func, ast.Attribute) and it.func.attr in ("values", "items") \
                    and not it.args and isinstance(it.func.value, ast.Name):
                # `for x in d.values()` / `for k, x in d.items()`: x IS the value stored under the k-th key of d
                d = st.env.get(it.func.value.id)
                vt = tgt if it.func.attr == "values" else (tgt.elts[1] if isinstance(tgt, (ast.Tuple, ast.List))
                                                           and len(tgt.elts) == 2 else None)
                if d is not None and isinstance(d.ty, TDict) and isinstance(d.ty.val, (TRec, TDict, TSet, TSeq)) \
                        and isinstance(vt, ast.Name):
                    out[vt.id] = it.func.value.id
            elif isinstance(it, ast.Call) and isinstance(it.func, ast.Name) and it.func.id == "zip" and \
                    isinstance(tgt, (ast.Tuple, ast.List)) and len(tgt.elts) == len(it.args):
                for a_, t_ in zip(it.args, tgt.elts):
                    walk(a_, t_)
            elif isinstance(it, ast.Call) and isinstance(it.func, ast.Name) and it.func.id == "enumerate" and \
                    isinstance(tgt, (ast.Tuple, ast.List)) and len(tgt.elts) == 2 and len(it.args) == 1:
                walk(it.args[0], tgt.elts[1])
        walk(node.iter, node.target)
        return out

    def _unroll(self, node, st, n: int, elem, dorder=None):
        live = [st]
        done = []
        srcs = self._alias_sources(node, st)
        for i in range(n):
            nxt = []
            for s in live:
                self.bind(node.target, elem(z3.IntVal(i)), s, node)
                for v, q in srcs.items():
                    s.alias[v] = (q, self._alias_index(st.env[q], z3.IntVal(i), dorder))
                s.borrowed |= {t for t in _target_names(node.target) if t not in srcs and t in s.env
                               and _mutable_kind(s.env[t])}
                for s2, flow in self.exec_block(node.body, s):
                    if flow in (None, "continue"):
                        nxt.append(s2)
                    elif flow == "break":
                        done.append((s2, None))
            live = nxt
        return [(s, None) for s in live] + done

    def _havoc(self, s: State, mods: list[str], ref: State):
        for m in mods:
            if m in ref.env:
                old = ref.env[m]
                nv = old.ty.fresh(m)
                nv.mut = old.mut
                s.env[m] = nv
                s.pc += old.ty.wf(nv.t)
            elif self._local_ty(m) is not None:
                nv = self._local_ty(m).fresh(m)
                s.env[m] = nv
                s.pc += nv.ty.wf(nv.t)
            else:
                s.env.pop(m, None)

    def s_While(self, node, st):
        raise Unsupported("while loop", node)

    # ---- iteration specs ------------------------------------------------------------------------------
    def eval_iter(self, node: ast.expr, st: State):
        """-> (n: Int term, elem(i) -> Val or python tuple structure of Vals)."""
        if isinstance(node, ast.Call) and isinstance(node.func, ast.Name):
            f = node.func.id
            if f == "range":
                args = [self.as_int(self.eval(a, st), st, node) for a in node.args]
                if len(args) == 1:
                    lo, hi = z3.IntVal(0), args[0]
                elif len(args) == 2:
                    lo, hi = args
                else:
                    raise Unsupported("range with step", node)
                n = z3.If(hi > lo, hi - lo, 0)
                return n, (lambda i: Val(TInt, lo + i))
            if f == "zip":
                starred = [a for a in node.args if isinstance(a, ast.Starred)]
                if starred:
                    return self._zip_star(node, st)
                subs = [self.eval_iter(a, st) for a in node.args]
                finite = [m for m, _ in subs if m is not None]
                if not finite:
                    raise Unsupported("zip of infinite iterables only", node)
                n = finite[0]
                for m in finite[1:]:
                    n = z3.If(m < n, m, n)
                return n, (lambda i: tuple(e(i) for _, e in subs))
            if f == "enumerate":
                if len(node.args) != 1 or node.keywords:
                    raise Unsupported("enumerate with start", node)
                m, e = self.eval_iter(node.args[0], st)
                return m, (lambda i: (Val(TInt, i), e(i)))
        if isinstance(node, ast.Call) and isinstance(node.func, ast.Attribute) and \
                node.func.attr in ("items", "keys", "values") and not node.args:
            d = self.eval(node.func.value, st)
            if isinstance(d.ty, TDict):
                order = self.dict_order(d, st)
                self._last_dict_order = order
                kind = node.func.attr
                ty = d.ty

                def el(i, kind=kind):
                    kk = Val(ty.key, z3.Select(order.ty.arr(order.t), i))
                    vv = Val(ty.val, z3.Select(ty.vals(d.t), kk.t))
                    return {"items": (kk, vv), "keys": kk, "values": vv}[kind]
                return order.ty.len(order.t), el
        v = self.eval(node, st)
        if isinstance(v.ty, TSeq):
            n_ = None if getattr(v, "inf", False) else v.ty.len(v.t)
            return n_, (lambda i: Val(v.ty.elem, z3.Select(v.ty.arr(v.t), i)))
        if isinstance(v.ty, TTuple):
            items = v.t

            def el(i):
                i = z3.simplify(i)
                if not z3.is_int_value(i):
                    raise Unsupported("symbolic index into a heterogeneous tuple", node)
                return items[i.as_long()]
            return z3.IntVal(len(items)), el
        if isinstance(v.ty, TDict):
            order = self.dict_order(v, st)
            return order.ty.len(order.t), (lambda i: Val(v.ty.key, z3.Select(order.ty.arr(order.t), i)))
        if isinstance(v.ty, TSet):
            order = self.set_order(v, st)
            self._last_dict_order = order
            return order.ty.len(order.t), (lambda i: Val(v.ty.key, z3.Select(order.ty.arr(order.t), i)))
        raise Unsupported(f"iteration over {v.ty}", node)

    def _zip_star(self, node, st):
        """zip(*M, x): M a sequence of equally long rows (obligation), x one more iterable.  Item i is (column i of M
        as a list, x[i]); the matching target is (*names, last)."""
        if len(node.args) != 2 or not isinstance(node.args[0], ast.Starred):
            raise Unsupported("zip with a starred argument in this position", node)
        M = self.eval(node.args[0].value, st)
        if not (isinstance(M.ty, TSeq) and isinstance(M.ty.elem, TSeq)):
            raise Unsupported("zip(*x) of a non-matrix", node)
        row_ty = M.ty.elem
        R = M.ty.len(M.t)
        rows = M.ty.arr(M.t)
        r = z3.Int(fresh_name("zr"))
        L = row_ty.len(z3.Select(rows, 0))  # the natural witness: the length of the first row
        same = z3.ForAll([r], z3.Implies(z3.And(0 <= r, r < R), row_ty.len(z3.Select(rows, r)) == L),
                         patterns=[z3.Select(rows, r)])
        self.oblige(st, "zip(*rows): all rows equally long", same, node.lineno, "assert")
        st.assume(same)
        m2, e2 = self.eval_iter(node.args[1], st)
        n = z3.If(R > 0, L, m2 if m2 is not None else z3.IntVal(0))
        if m2 is not None:
            n = z3.If(R > 0, z3.If(m2 < L, m2, L), m2)
        # column i as a sequence: colarr(i)[r] = rows[r][i]   (a function of i, not a fresh constant per use)
        colarr = z3.Function(fresh_name("col"), z3.IntSort(), z3.ArraySort(z3.IntSort(), row_ty.elem.sort()))
        ii = z3.Int(fresh_name("zi"))
        cell = z3.Select(row_ty.arr(z3.Select(rows, r)), ii)
        st.assume(z3.ForAll([ii, r], z3.Select(colarr(ii), r) == cell, patterns=[z3.Select(colarr(ii), r), cell]))

        def elem(i):
            return (Val(row_ty, row_ty.mk(R, colarr(i)), True), e2(i))
        return n, elem

    def dict_order(self, d: Val, st: State) -> Val:
        """Iteration order of a dict: an unknown duplicate-free enumeration of its domain (ghost witness `pos`)."""
        ty: TDict = d.ty
        sq = TSeq(ty.key)
        o = sq.fresh("order")
        pos = z3.Function(fresh_name("pos"), ty.key.sort(), z3.IntSort())
        i = z3.Int(fresh_name("oi"))
        k = z3.Const(fresh_name("ok"), ty.key.sort())
        oi = z3.Select(sq.arr(o.t), i)
        st.assume(sq.len(o.t) == ty.size(d.t))
        st.assume(z3.ForAll([i], z3.Implies(z3.And(0 <= i, i < sq.len(o.t)),
                                            z3.And(z3.Select(ty.dom(d.t), oi), pos(oi) == i)), patterns=[oi]))
        st.assume(z3.ForAll([k], z3.Implies(z3.Select(ty.dom(d.t), k),
                                            z3.And(0 <= pos(k), pos(k) < sq.len(o.t),
                                                   z3.Select(sq.arr(o.t), pos(k)) == k)),
                            patterns=[pos(k), z3.Select(ty.dom(d.t), k)]))
        return o

    def set_order(self, sv: Val, st: State) -> Val:
        """Iteration order of a set: an unknown duplicate-free enumeration of its members (ghost witness `pos`)."""
        ty: TSet = sv.ty
        sq = TSeq(ty.key)
        o = sq.fresh("sorder")
        pos = z3.Function(fresh_name("spos"), ty.key.sort(), z3.IntSort())
        i = z3.Int(fresh_name("oi"))
        k = z3.Const(fresh_name("ok"), ty.key.sort())
        oi = z3.Select(sq.arr(o.t), i)
        st.assume(sq.len(o.t) == ty.card(sv.t))
        st.assume(z3.ForAll([i], z3.Implies(z3.And(0 <= i, i < sq.len(o.t)),
                                            z3.And(z3.Select(ty.mem(sv.t), oi), pos(oi) == i)), patterns=[oi]))
        st.assume(z3.ForAll([k], z3.Implies(z3.Select(ty.mem(sv.t), k),
                                            z3.And(0 <= pos(k), pos(k) < sq.len(o.t), z3.Select(sq.arr(o.t), pos(k)) == k)),
                            patterns=[pos(k), z3.Select(ty.mem(sv.t), k)]))
        return o

    def bind(self, tgt: ast.expr, v, st: State, node):
        if isinstance(tgt, ast.Name):
            if isinstance(v, tuple):
                v = Val(TTuple([x.ty for x in v]), list(v))
            st.env[tgt.id] = v
            return
        if isinstance(tgt, (ast.Tuple, ast.List)):
            if isinstance(v, Val) and isinstance(v.ty, TTuple):
                v = tuple(v.t)
            if isinstance(v, tuple) and len(tgt.elts) == 2 and isinstance(tgt.elts[0], ast.Starred) and len(v) == 2 \
                    and isinstance(v[0], Val) and isinstance(v[0].ty, TSeq):
                # (*names, last) against an item of zip(*rows, x): the column is delivered as one list
                self.bind(tgt.elts[0].value, v[0], st, node)
                self.bind(tgt.elts[1], v[1], st, node)
                return
            if not isinstance(v, tuple) or len(v) != len(tgt.elts):
                raise Unsupported("unpacking shape mismatch", node)
            for t, x in zip(tgt.elts, v):
                self.bind(t, x, st, node)
            return
        raise Unsupported("loop target", node)

    # ---- assignment -----------------------------------------------------------------------------------
    def assign(self, tgt: ast.expr, v: Val, st: State, node, writeback: bool = False):
        """writeback=True: the new value of a *mutated* object is stored back through its l-value (field store, method
        with a `modifies` contract); False: the name is rebound."""
        root = _path_of(tgt) if isinstance(tgt, (ast.Name, ast.Attribute)) else None
        if root is not None:  # refinements of attribute paths below (or equal to) the assigned l-value are stale
            base = root.split(".")[0]
            for k_ in [k_ for k_ in st.env if "." in k_ and (k_ == root or k_.startswith(root + ".") or k_.split(".")[0] == base)]:
                del st.env[k_]
        if isinstance(tgt, ast.Name):
            hint = self._local_ty(tgt.id)
            if hint is not None:
                try:
                    v = self.coerce(v, hint, st, node)
                except Unsupported:
                    if writeback:
                        raise
                    # the name is rebound to a value of another kind (`outputs = None`, `outputs = outputs[0]`): the
                    # declared sort only serves empty literals and loop accumulators
            if writeback:
                if tgt.id in st.alias:  # the variable is element k of a sequence: the element is what changed
                    q, k = st.alias[tgt.id]
                    sq = st.env[q]
                    if isinstance(sq.ty, TDict):  # the value under an existing key changed: same keys, same size
                        st.env[q] = Val(sq.ty, sq.ty.mk(sq.ty.dom(sq.t), z3.Store(sq.ty.vals(sq.t), k, v.t),
                                                        sq.ty.size(sq.t)), True)
                    else:
                        st.env[q] = Val(sq.ty, sq.ty.mk(sq.ty.len(sq.t), z3.Store(sq.ty.arr(sq.t), k, v.t)), True)
                elif tgt.id in st.borrowed:
                    raise Unsupported(f"mutation of {tgt.id}, which is another name of an existing object", node)
            else:
                st.alias.pop(tgt.id, None)
                st.borrowed.discard(tgt.id)
            st.env[tgt.id] = v
            return
        if isinstance(tgt, (ast.Tuple, ast.List)):
            if any(isinstance(e, ast.Starred) for e in tgt.elts):
                # `first, *rest = seq`: ValueError on an empty sequence; rest = seq[1:]
                if len(tgt.elts) == 2 and isinstance(tgt.elts[1], ast.Starred) and isinstance(v.ty, TSeq):
                    ty = v.ty
                    n = ty.len(v.t)
                    self.raise_if(st, n < 1, "ValueError", getattr(node, "lineno", None))
                    self.assign(tgt.elts[0], Val(ty.elem, z3.Select(ty.arr(v.t), 0)), st, node)
                    rest = ty.fresh("rest")
                    i = z3.Int(fresh_name("ri"))
                    ri = z3.Select(ty.arr(rest.t), i)
                    st.assume(ty.len(rest.t) == n - 1)
                    st.assume(z3.ForAll([i], z3.Implies(z3.And(0 <= i, i < n - 1), ri == z3.Select(ty.arr(v.t), i + 1)),
                                        patterns=[ri]))
                    # the same link stated from the source's side: a ground seq[t] makes its place in `rest` known
                    vi = z3.Select(ty.arr(v.t), i)
                    st.assume(z3.ForAll([i], z3.Implies(z3.And(1 <= i, i < n), z3.Select(ty.arr(rest.t), i - 1) == vi),
                                        patterns=[vi]))
                    rest.mut = True
                    self.assign(tgt.elts[1].value, rest, st, node)
                    return
                raise Unsupported("starred assignment", node)
            if isinstance(v.ty, TTuple) and len(v.t) == len(tgt.elts):
                for t, x in zip(tgt.elts, v.t):
                    self.assign(t, x, st, node)
                return
            raise Unsupported("tuple assignment from non-tuple", node)
        if isinstance(tgt, ast.Attribute):
            base = self.eval(tgt.value, st)
            if isinstance(base.ty, TRec) and tgt.attr in base.ty.fields:
                fty = base.ty.fields[tgt.attr]
                v = self.coerce(v, fty, st, node)
                self.assign(tgt.value, Val(base.ty, base.ty.set(base.t, tgt.attr, v.t), base.mut), st, node, writeback=True)
                return
            raise Unsupported(f"attribute assignment .{tgt.attr}", node)
        if isinstance(tgt, ast.Subscript):
            base = self.eval(tgt.value, st)
            if isinstance(base.ty, TRec) and isinstance(tgt.slice, ast.Constant) and tgt.slice.value in base.ty.fields:
                fty = base.ty.fields[tgt.slice.value]
                v = self.coerce(v, fty, st, node)
                self.assign(tgt.value, Val(base.ty, base.ty.set(base.t, tgt.slice.value, v.t), True), st, node, writeback=True)
                return
            if isinstance(base.ty, TDict):
                ty = base.ty
                if isinstance(tgt.value, ast.Name):  # names bound to values of this dict no longer track them
                    for nm_ in [nm_ for nm_, (q_, _) in st.alias.items() if q_ == tgt.value.id]:
                        del st.alias[nm_]
                        st.borrowed.add(nm_)
                k = self.coerce(self.eval(tgt.slice, st), ty.key, st, node)
                v = self.coerce(v, ty.val, st, node)
                had = z3.Select(ty.dom(base.t), k.t)
                new = ty.mk(z3.Store(ty.dom(base.t), k.t, True), z3.Store(ty.vals(base.t), k.t, v.t),
                            z3.If(had, ty.size(base.t), ty.size(base.t) + 1))
                self.assign(tgt.value, Val(ty, new, True), st, node, writeback=True)
                return
            if isinstance(base.ty, TSeq):
                ty = base.ty
                i = self.index(base, self.eval(tgt.slice, st), st, node)
                v = self.coerce(v, ty.elem, st, node)
                self.assign(tgt.value, Val(ty, ty.mk(ty.len(base.t), z3.Store(ty.arr(base.t), i, v.t)), True), st, node, writeback=True)
                return
        raise Unsupported("assignment target", node)

    # ---- expressions ----------------------------------------------------------------------------------
    def eval(self, node: ast.expr, st: State, hint: Ty | None = None) -> Val:
        m = getattr(self, "e_" + type(node).__name__, None)
        if m is None:
            raise Unsupported(f"expression {type(node).__name__}", node)
        if type(node).__name__ in ("List", "Tuple", "Dict", "Call", "ListComp", "Set", "SetComp"):
            return m(node, st, hint)
        return m(node, st)

    def e_Constant(self, node, st):
        x = node.value
        if x is None:
            return VNone
        if isinstance(x, bool):
            return Val(TBool, z3.BoolVal(x))
        if isinstance(x, int):
            return Val(TInt, z3.IntVal(x))
        if isinstance(x, float):
            return Val(TReal, TReal.lit(x))
        if isinstance(x, str):
            return Val(TStr, TStr.lit(x))
        raise Unsupported(f"constant {x!r}", node)

    def e_JoinedStr(self, node, st):
        # message text is dropped: an opaque string.  Sub-expressions are NOT evaluated (they could only raise
        # through __format__/__str__, which is outside the model).
        return TStr.fresh("msg")

    def e_NamedExpr(self, node, st):
        v = self.eval(node.value, st)
        self.assign(node.target, v, st, node)
        return v

    def e_Name(self, node, st):
        if node.id in st.env:
            return st.env[node.id]
        if self.c.locals_.get(node.id) is TObj and node.id not in self.c.params:
            # a module-level object the function only reads (declared in contract.locals_ as an opaque object and never
            # assigned - an assignment would have put it into the environment): one fixed constant per name
            return Val(TObj, z3.Const(f"global:{node.id}", TObj.sort()))
        raise Unsupported(f"unknown name {node.id}", node)

    def e_Attribute(self, node, st):
        pth = _path_of(node)
        if pth is not None and pth in st.env:  # an attribute path narrowed by a flow refinement
            return st.env[pth]
        base = self.eval(node.value, st)
        if isinstance(base.ty, TOpt) and isinstance(base.ty.elem, TRec):
            self.raise_if(st, base.ty.is_none(base.t), "AttributeError", node.lineno)
            base = Val(base.ty.elem, base.ty.val(base.t), base.mut)
        if isinstance(base.ty, TRec):
            if node.attr in base.ty.fields:
                return base.ty.get(base.t, node.attr)
            cname = f"{base.ty.name}.{node.attr}"
            if cname in self.registry:
                return self.apply_contract(self.registry[cname], [base], {}, st, node)
        raise Unsupported(f"attribute .{node.attr} on {base.ty}", node)

    def index(self, seq: Val, i: Val, st: State, node) -> z3.ExprRef:
        it = self.as_int(i, st, node)
        n = seq.ty.len(seq.t)
        its = z3.simplify(it)
        if z3.is_int_value(its) and its.as_long() >= 0:
            idx = its
        else:
            idx = z3.If(it < 0, it + n, it)
        self.raise_if(st, z3.Not(z3.And(0 <= idx, idx < n)), "IndexError", node.lineno)
        return idx

    def e_Subscript(self, node, st):
        base = self.eval(node.value, st)
        if isinstance(node.slice, ast.Slice):
            return self.slice_seq(base, node.slice, st, node)
        if isinstance(base.ty, TRec) and isinstance(node.slice, ast.Constant) and node.slice.value in base.ty.fields:
            return base.ty.get(base.t, node.slice.value)
        key = self.eval(node.slice, st)
        if isinstance(base.ty, TSeq):
            idx = self.index(base, key, st, node)
            return Val(base.ty.elem, z3.Select(base.ty.arr(base.t), idx))
        if isinstance(base.ty, TDict) and getattr(base.ty, "default", None) is not None:
            # defaultdict: reading a missing key enters the factory's value (an empty container) under it
            if not isinstance(node.value, ast.Name):
                raise Unsupported("subscript of a defaultdict that is not a plain variable", node)
            dty = base.ty
            k = self.coerce(key, dty.key, st, node)
            vty = dty.val
            if dty.default == "set" and isinstance(vty, TSet):
                empty = vty.mk(z3.K(vty.key.sort(), z3.BoolVal(False)), z3.IntVal(0))
            elif dty.default == "dict" and isinstance(vty, TDict):
                empty = vty.empty()
            else:
                raise Unsupported(f"defaultdict({dty.default}) with values of sort {vty}", node)
            had = z3.Select(dty.dom(base.t), k.t)
            new = dty.mk(z3.Store(dty.dom(base.t), k.t, True),
                         z3.If(had, dty.vals(base.t), z3.Store(dty.vals(base.t), k.t, empty)),
                         z3.If(had, dty.size(base.t), dty.size(base.t) + 1))
            st.env[node.value.id] = Val(dty, new, True)
            return Val(vty, z3.Select(dty.vals(new), k.t), True)
        if isinstance(base.ty, TDict):
            k = self.coerce(key, base.ty.key, st, node)
            self.raise_if(st, z3.Not(z3.Select(base.ty.dom(base.t), k.t)), "KeyError", node.lineno)
            return Val(base.ty.val, z3.Select(base.ty.vals(base.t), k.t))
        if isinstance(base.ty, TTuple):
            i = z3.simplify(self.as_int(key, st, node))
            if z3.is_int_value(i):
                j = i.as_long()
                if -len(base.t) <= j < len(base.t):
                    return base.t[j]
                self.do_raise(st, "IndexError", node.lineno)
                st.assume(z3.BoolVal(False))
                return base.t[0]
            raise Unsupported("symbolic index into heterogeneous tuple", node)
        raise Unsupported(f"subscript on {base.ty}", node)

    def slice_seq(self, base: Val, sl: ast.Slice, st, node):
        if not isinstance(base.ty, TSeq) or sl.step is not None:
            raise Unsupported("slice", node)
        n = base.ty.len(base.t)

        def clamp(x):
            x = z3.If(x < 0, x + n, x)
            return z3.If(x < 0, 0, z3.If(x > n, n, x))
        lo = clamp(self.as_int(self.eval(sl.lower, st), st, node)) if sl.lower is not None else z3.IntVal(0)
        hi = clamp(self.as_int(self.eval(sl.upper, st), st, node)) if sl.upper is not None else n
        r = base.ty.fresh("slice")
        i = z3.Int(fresh_name("si"))
        ri = z3.Select(base.ty.arr(r.t), i)
        st.assume(base.ty.len(r.t) == z3.If(hi > lo, hi - lo, 0))
        st.assume(z3.ForAll([i], z3.Implies(z3.And(0 <= i, i < base.ty.len(r.t)),
                                            ri == z3.Select(base.ty.arr(base.t), lo + i)), patterns=[ri]))
        st.pc += base.ty.wf(r.t)
        return r

    def e_Tuple(self, node, st, hint=None):
        if any(isinstance(e, ast.Starred) for e in node.elts):
            raise Unsupported("starred in tuple", node)
        items = [self.eval(e, st) for e in node.elts]
        v = Val(TTuple([x.ty for x in items]), items)
        if hint is not None:
            return self.coerce(v, hint, st, node)
        return v

    def e_List(self, node, st, hint=None):
        v = self.e_Tuple(node, st, hint)
        if hint is None and not node.elts:
            raise Unsupported("empty list literal without a sort in contract.locals_", node)
        v.mut = True
        return v

    def e_Dict(self, node, st, hint=None):
        if node.keys and isinstance(hint, TRec) and all(isinstance(k, ast.Constant) and isinstance(k.value, str)
                                                       for k in node.keys):
            # a dict literal with constant string keys used as a record (sort given by contract.locals_)
            got = {k.value: v for k, v in zip(node.keys, node.values)}
            if set(got) != set(hint.fields):
                raise Unsupported("record-like dict literal with unexpected keys", node)
            fields = {}
            for name, fty in hint.fields.items():
                fields[name] = self.coerce(self.eval(got[name], st, hint=fty), fty, st, node).t
            return Val(hint, hint.mk(**fields), True)
        if node.keys:
            raise Unsupported("non-empty dict literal", node)
        if not isinstance(hint, TDict):
            raise Unsupported("empty dict literal without a sort in contract.locals_", node)
        return Val(hint, hint.empty(), True)

    def e_UnaryOp(self, node, st):
        v = self.eval(node.operand, st)
        if isinstance(node.op, ast.Not):
            return Val(TBool, z3.Not(self.truthy(v)))
        if isinstance(node.op, ast.USub):
            if v.ty is TReal:
                return Val(TReal, -v.t)
            return Val(TInt, -self.as_int(v, st, node))
        raise Unsupported("unary op", node)

    def e_BoolOp(self, node, st):
        # `x or default` with a non-boolean x: the value is x if x is truthy, else the default
        if isinstance(node.op, ast.Or) and len(node.values) == 2:
            x = self.eval(node.values[0], st)
            if x.ty is not TBool:
                want = x.ty.elem if isinstance(x.ty, TOpt) else x.ty
                saved = list(st.guards)
                tx = self.truthy(x)
                st.guards.append(z3.Not(tx))
                try:
                    y = self.eval(node.values[1], st, hint=want) if isinstance(node.values[1], (ast.Dict, ast.List, ast.Tuple)) \
                        else self.eval(node.values[1], st)
                finally:
                    st.guards[:] = saved
                y = self.coerce(y, want, st, node)
                xv = Val(want, x.ty.val(x.t), x.mut) if isinstance(x.ty, TOpt) else x
                return Val(want, z3.If(tx, xv.t, y.t), True)
        # otherwise the value semantics of and/or are only modelled for boolean contexts
        terms = []
        saved = list(st.guards)
        saved_env = dict(st.env)
        for e in node.values:
            t = self.truthy(self.eval(e, st))
            terms.append(t)
            ts = z3.simplify(t)
            decided = (isinstance(node.op, ast.And) and z3.is_false(ts)) or (isinstance(node.op, ast.Or) and z3.is_true(ts))
            if not decided and e is not node.values[-1] and not z3.is_true(ts) and not z3.is_false(ts):
                # decided by the path condition?  (quantifier-free part only, as for path pruning)
                probe = st.copy()
                probe.pc += list(st.guards) + [t if isinstance(node.op, ast.And) else z3.Not(t)]
                decided = not self.feasible(probe)
            if decided:
                break  # short circuit: the remaining operands are not evaluated (they may not even be defined)
            st.guards.append(t if isinstance(node.op, ast.And) else z3.Not(t))
            # the later operands are evaluated knowing how this one came out (`x is None or f(x)`: x is not None in f(x))
            for nm, rv in self.refinements(e, st, isinstance(node.op, ast.And)).items():
                st.env[nm] = rv
        st.guards[:] = saved
        st.env.clear()
        st.env.update(saved_env)
        return Val(TBool, z3.And(*terms) if isinstance(node.op, ast.And) else z3.Or(*terms))

    def e_IfExp(self, node, st):
        c = self.truthy(self.eval(node.test, st))
        saved = list(st.guards)
        saved_env = st.env
        ref_t, ref_f = self.refinements(node.test, st, True), self.refinements(node.test, st, False)
        st.guards.append(c)
        st.env = {**saved_env, **ref_t}
        a = self.eval(node.body, st)
        st.guards[:] = saved + [z3.Not(c)]
        st.env = {**saved_env, **ref_f}
        b = self.eval(node.orelse, st)
        st.env = saved_env
        st.guards[:] = saved
        a, b = self.unify(a, b, st, node)
        return Val(a.ty, z3.If(c, a.t, b.t))

    def unify(self, a: Val, b: Val, st, node):
        if a.ty is b.ty or a.ty.name == b.ty.name:
            return a, b
        if isinstance(a.ty, TNoneT) and isinstance(b.ty, TOpt):
            return Val(b.ty, b.ty.none()), b
        if isinstance(b.ty, TNoneT) and isinstance(a.ty, TOpt):
            return a, Val(a.ty, a.ty.none())
        if isinstance(a.ty, TNoneT):
            o = TOpt(b.ty)
            return Val(o, o.none()), Val(o, o.some(b.t))
        if isinstance(b.ty, TNoneT):
            o = TOpt(a.ty)
            return Val(o, o.some(a.t)), Val(o, o.none())
        if isinstance(a.ty, TOpt) and a.ty.elem.name == b.ty.name:
            return a, Val(a.ty, a.ty.some(b.t))
        if isinstance(b.ty, TOpt) and b.ty.elem.name == a.ty.name:
            return Val(b.ty, b.ty.some(a.t)), b
        if isinstance(a.ty, TSeq) and isinstance(b.ty, TTuple):
            return a, self.coerce(b, a.ty, st, node)
        if isinstance(b.ty, TSeq) and isinstance(a.ty, TTuple):
            return self.coerce(a, b.ty, st, node), b
        for x, y, swap in ((a, b, False), (b, a, True)):
            if isinstance(x.ty, TUnion):
                y2 = self.coerce(y, x.ty, st, node)
                return (y2, x) if swap else (x, y2)
        if a.ty is TBool and b.ty is TInt:
            return Val(TInt, z3.If(a.t, 1, 0)), b
        if a.ty is TInt and b.ty is TBool:
            return a, Val(TInt, z3.If(b.t, 1, 0))
        if a.ty is TInt and b.ty is TReal:
            return Val(TReal, z3.ToReal(a.t)), b
        if a.ty is TReal and b.ty is TInt:
            return a, Val(TReal, z3.ToReal(b.t))
        # two alternatives of a union the contract mentions (e.g. int | slice): inject both
        for u in self._known_unions():
            alts = {aty.name for _, aty in u.alts if aty is not None}
            if a.ty.name in alts and b.ty.name in alts:
                return self.coerce(a, u, st, node), self.coerce(b, u, st, node)
        raise Unsupported(f"cannot unify {a.ty} and {b.ty}", node)

    def _known_unions(self) -> list:
        """Union sorts occurring in the sorts the contract under verification declares (params, result, locals)."""
        if getattr(self, "_unions_for", None) is not self.c:
            found: dict[str, TUnion] = {}

            def walk(t):
                if isinstance(t, TUnion):
                    found[t.name] = t
                    for _, aty in t.alts:
                        if aty is not None:
                            walk(aty)
                elif isinstance(t, (TSeq, TOpt, TSet)):
                    walk(t.elem)
                elif isinstance(t, TDict):
                    walk(t.key), walk(t.val)
                elif isinstance(t, TTuple):
                    for x in t.items:
                        walk(x)
                elif isinstance(t, TRec):
                    for x in t.fields.values():
                        walk(x)
            for t in list(self.c.params.values()) + [self.c.returns] + list(self.c.locals_.values()):
                if t is not None:
                    walk(t)
            self._unions, self._unions_for = list(found.values()), self.c
        return self._unions

    def coerce(self, v: Val, ty: Ty, st: State, node) -> Val:
        if v.ty is ty or v.ty.name == ty.name:
            return v
        if ty is TObj and isinstance(v.ty, TNoneT):
            return Val(TObj, TObj.lit(None))  # None is an object like any other (a distinguished constant of the sort)
        if ty is TObj and isinstance(v.ty, TRec) and getattr(v.ty, "identity", None) in v.ty.fields \
                and v.ty.fields[v.ty.identity] is TObj:
            # an object seen through a record view, used where any object is expected: its identity field
            return Val(TObj, v.ty.get(v.t, v.ty.identity).t)
        if ty is TObj and (v.ty is TStr or v.ty is TInt or v.ty is TBool):
            # a string / number used where any object is expected: boxed by an (uninterpreted) injection of its sort
            box = z3.Function(f"box:{v.ty.name}", v.ty.sort(), TObj.sort())
            return Val(TObj, box(v.t))
        if ty is TObj and isinstance(v.ty, TTuple):
            # a tuple used where any object is expected: boxed by an (uninterpreted) injection of its components
            items = [self.coerce(x, TObj, st, node) for x in v.t]
            box = z3.Function(f"box:tuple{len(items)}", *([TObj.sort()] * len(items)), TObj.sort()) if items else None
            return Val(TObj, box(*[x.t for x in items]) if items else TObj.fresh("empty-tuple"))
        if isinstance(ty, TOpt):
            if isinstance(v.ty, TNoneT):
                return Val(ty, ty.none())
            inner = self.coerce(v, ty.elem, st, node)
            return Val(ty, ty.some(inner.t))
        if isinstance(v.ty, TOpt) and v.ty.elem is TObj and ty is TObj:
            # an Optional object used where any object is expected: None is such an object
            return Val(TObj, z3.If(v.ty.is_none(v.t), TObj.lit(None), v.ty.val(v.t)))
        if isinstance(v.ty, TOpt) and v.ty.elem.name == ty.name:
            # flow-sensitive projection: using an Optional as its payload; None would be a TypeError/AttributeError
            self.raise_if(st, v.ty.is_none(v.t), "TypeError", getattr(node, "lineno", None))
            return Val(ty, v.ty.val(v.t))
        if isinstance(ty, TSeq) and isinstance(v.ty, TTuple):
            items = [self.coerce(x, ty.elem, st, node) for x in v.t]
            arr = z3.K(z3.IntSort(), items[0].t) if items else z3.Const(fresh_name("emptyarr"),
                                                                       z3.ArraySort(z3.IntSort(), ty.elem.sort()))
            for i, x in enumerate(items):
                arr = z3.Store(arr, i, x.t)
            return Val(ty, ty.mk(z3.IntVal(len(items)), arr), v.mut)
        if isinstance(ty, TRec) and isinstance(v.ty, TTuple) and len(v.t) == len(ty.fields):
            fields = {k: self.coerce(x, fty, st, node).t for (k, fty), x in zip(ty.fields.items(), v.t)}
            return Val(ty, ty.mk(**fields))
        if isinstance(ty, TUnion):
            for tag, aty in ty.alts:
                if aty is not None and aty.name == v.ty.name:
                    return Val(ty, ty.mk(tag, v.t))
                if aty is None and isinstance(v.ty, TNoneT) and tag == "none":
                    return Val(ty, ty.mk(tag))
        if isinstance(v.ty, TUnion):
            same = [tag for tag, aty in v.ty.alts if aty is not None and aty.name == ty.name]
            if same:  # (several alternatives may carry the wanted sort: any of them will do)
                self.raise_if(st, z3.Not(z3.Or(*[v.ty.is_(tag, v.t) for tag in same])), "TypeError",
                              getattr(node, "lineno", None))
                out = v.ty.get(same[-1], v.t)
                for tag in reversed(same[:-1]):
                    out = z3.If(v.ty.is_(tag, v.t), v.ty.get(tag, v.t), out)
                return Val(ty, out)
        if ty is TInt and v.ty is TBool:
            return Val(TInt, z3.If(v.t, 1, 0))
        if ty is TReal and v.ty is TInt:
            return Val(TReal, z3.ToReal(v.t))
        if ty is TBool and v.ty is not TBool:
            return Val(TBool, self.truthy(v))
        raise Unsupported(f"cannot coerce {v.ty} to {ty}", node)

    def as_int(self, v: Val, st: State, node) -> z3.ExprRef:
        if v.ty is TInt:
            return v.t
        return self.coerce(v, TInt, st, node).t

    def truthy(self, v: Val):
        if v.ty is TBool:
            return v.t
        if v.ty is TInt:
            return v.t != 0
        if v.ty is TReal:
            return v.t != 0
        if isinstance(v.ty, TSeq):
            return v.ty.len(v.t) != 0
        if isinstance(v.ty, TDict):
            return v.ty.size(v.t) != 0
        if isinstance(v.ty, TSet):
            return v.ty.card(v.t) != 0
        if isinstance(v.ty, TTuple):
            return z3.BoolVal(len(v.t) != 0)
        if isinstance(v.ty, TNoneT):
            return z3.BoolVal(False)
        if v.ty is TObj:
            # an opaque object: None is falsy, anything else is as truthy as an uninterpreted predicate says
            return z3.And(v.t != TObj.lit(None), z3.Function("spec:truthy", TObj.sort(), z3.BoolSort())(v.t))
        if isinstance(v.ty, TOpt):
            inner = Val(v.ty.elem, v.ty.val(v.t))
            if isinstance(v.ty.elem, (TOpaque, TRec)):
                return z3.Not(v.ty.is_none(v.t))
            return z3.And(z3.Not(v.ty.is_none(v.t)), self.truthy(inner))
        raise Unsupported(f"truthiness of {v.ty}")

    def binop(self, op, a: Val, b: Val, st: State, node) -> Val:
        if isinstance(a.ty, (TSeq, TTuple)) and isinstance(op, ast.Add):
            return self.concat(a, b, st, node)
        if isinstance(a.ty, TTuple) and len(a.t) == 1 and isinstance(op, ast.Mult) and b.ty in (TInt, TBool):
            return self.repeat(a.t[0], self.as_int(b, st, node), st, node)
        if isinstance(b.ty, TTuple) and len(b.t) == 1 and isinstance(op, ast.Mult) and a.ty in (TInt, TBool):
            return self.repeat(b.t[0], self.as_int(a, st, node), st, node)  # n * (x,)
        if a.ty is TReal or b.ty is TReal or isinstance(op, ast.Div):
            x = a.t if a.ty is TReal else z3.ToReal(self.as_int(a, st, node))
            y = b.t if b.ty is TReal else z3.ToReal(self.as_int(b, st, node))
            if isinstance(op, ast.Add):
                return Val(TReal, x + y)
            if isinstance(op, ast.Sub):
                return Val(TReal, x - y)
            if isinstance(op, ast.Mult):
                return Val(TReal, x * y)
            if isinstance(op, ast.Div):
                self.raise_if(st, y == 0, "ZeroDivisionError", node.lineno)
                return Val(TReal, x / y)
            raise Unsupported("real operator", node)
        x, y = self.as_int(a, st, node), self.as_int(b, st, node)
        if isinstance(op, ast.Add):
            return Val(TInt, x + y)
        if isinstance(op, ast.Sub):
            return Val(TInt, x - y)
        if isinstance(op, ast.Mult):
            return Val(TInt, x * y)
        if isinstance(op, (ast.FloorDiv, ast.Mod)):
            self.raise_if(st, y == 0, "ZeroDivisionError", node.lineno)
            # SMT-LIB div/mod are Euclidean (remainder >= 0); Python floors (remainder has the sign of y).
            q = z3.If(y > 0, x / y, (-x) / (-y))
            if isinstance(op, ast.FloorDiv):
                return Val(TInt, q)
            return Val(TInt, x - q * y)
        raise Unsupported(f"operator {type(op).__name__}", node)

    def repeat(self, x: Val, n, st: State, node) -> Val:
        """(x,) * n : a sequence of max(n,0) copies of x."""
        ty = TSeq(x.ty)
        r = ty.fresh("rep")
        i = z3.Int(fresh_name("ri"))
        ri = z3.Select(ty.arr(r.t), i)
        st.assume(ty.len(r.t) == z3.If(n > 0, n, 0))
        st.assume(z3.ForAll([i], z3.Implies(z3.And(0 <= i, i < n), ri == x.t), patterns=[ri]))
        if x.ty is TBool:
            xs = z3.simplify(x.t)
            k = z3.Int(fresh_name("rk"))
            if z3.is_true(xs):  # instance of lemma L8 (all True on [0,n) => cnt(R,k) = k)
                st.assume(z3.ForAll([k], z3.Implies(z3.And(0 <= k, k <= n), f_cnt(ty.arr(r.t), k) == k),
                                    patterns=[f_cnt(ty.arr(r.t), k)]))
            elif z3.is_false(xs):  # L8' (all False => cnt = 0)
                st.assume(z3.ForAll([k], z3.Implies(z3.And(0 <= k, k <= n), f_cnt(ty.arr(r.t), k) == 0),
                                    patterns=[f_cnt(ty.arr(r.t), k)]))
        return r

    def e_BinOp(self, node, st):
        if isinstance(node.op, (ast.Sub, ast.BitOr, ast.BitAnd)):
            sets = [self._as_set(x, st) for x in (node.left, node.right)]
            if all(x is not None for x in sets):
                if isinstance(node.op, ast.Sub):
                    return self.set_difference(sets[0], sets[1], st, node)
                return self.set_combine(sets[0], sets[1], isinstance(node.op, ast.BitOr), st, node)
        lv, rv = self.eval(node.left, st), self.eval(node.right, st)
        if isinstance(node.op, ast.BitOr) and lv.ty is TObj and rv.ty is TObj:
            # `a | b` on two opaque objects (e.g. the union of two dicts that are only handed on): an uninterpreted
            # function of the operands, `spec:or`
            return Val(TObj, z3.Function("spec:or", TObj.sort(), TObj.sort(), TObj.sort())(lv.t, rv.t))
        return self.binop(node.op, lv, rv, st, node)

    def _as_set(self, node: ast.expr, st: State):
        """A set-valued operand: a set variable/expression, or the keys view `d.keys()` of a dict."""
        if isinstance(node, ast.Call) and isinstance(node.func, ast.Attribute) and node.func.attr == "keys" \
                and not node.args and not node.keywords:
            d = self.eval(node.func.value, st)
            if isinstance(d.ty, TDict):
                ty = TSet(d.ty.key)
                return Val(ty, ty.mk(d.ty.dom(d.t), d.ty.size(d.t)))
            return None
        if isinstance(node, ast.Name) and node.id in st.env and isinstance(st.env[node.id].ty, TSet):
            return st.env[node.id]
        if isinstance(node, ast.Call) and isinstance(node.func, ast.Name) and node.func.id == "set" and "set" not in st.env \
                and len(node.args) == 1 and not node.keywords:
            v = self.eval(node.args[0], st)
            if isinstance(v.ty, TSet):
                return v
            if isinstance(v.ty, TDict):  # set(d): the keys
                ty = TSet(v.ty.key)
                return Val(ty, ty.mk(v.ty.dom(v.t), v.ty.size(v.t)))
            return self.b_set(node, st)
        return None

    def set_combine(self, a: Val, b: Val, union: bool, st: State, node) -> Val:
        """a | b  /  a & b: membership pointwise; the ghost cardinality is characterised as zero / non-zero."""
        if a.ty.name != b.ty.name:
            raise Unsupported("combination of sets of different element sorts", node)
        ty = a.ty
        r = ty.fresh("union" if union else "inter")
        k = z3.Const(fresh_name("uk"), ty.key.sort())
        mk_ = z3.Select(ty.mem(r.t), k)
        ma, mb = z3.Select(ty.mem(a.t), k), z3.Select(ty.mem(b.t), k)
        inside = z3.Or(ma, mb) if union else z3.And(ma, mb)
        st.assume(z3.ForAll([k], mk_ == inside, patterns=[mk_, ma, mb] if union else [mk_]))
        st.assume(ty.card(r.t) >= 0)
        st.assume((ty.card(r.t) == 0) == z3.ForAll([k], z3.Not(inside)))
        return r

    def set_difference(self, a: Val, b: Val, st: State, node) -> Val:
        """a - b: membership pointwise; the ghost cardinality is only characterised as zero / non-zero."""
        if a.ty.name != b.ty.name:
            raise Unsupported("difference of sets of different element sorts", node)
        ty = a.ty
        r = ty.fresh("diff")
        k = z3.Const(fresh_name("dk"), ty.key.sort())
        mk_ = z3.Select(ty.mem(r.t), k)
        inside = z3.And(z3.Select(ty.mem(a.t), k), z3.Not(z3.Select(ty.mem(b.t), k)))
        st.assume(z3.ForAll([k], mk_ == inside, patterns=[mk_]))
        st.assume(ty.card(r.t) >= 0)
        st.assume((ty.card(r.t) == 0) == z3.ForAll([k], z3.Not(inside)))
        return r

    def concat(self, a: Val, b: Val, st, node) -> Val:
        if isinstance(a.ty, TTuple) and isinstance(b.ty, TTuple):
            return Val(TTuple([x.ty for x in a.t + b.t]), a.t + b.t)
        # a sequence of None (n * (None,)) joined with values of sort E is a sequence of Optional[E]
        for x, y in ((a, b), (b, a)):
            if isinstance(x.ty, TSeq) and isinstance(x.ty.elem, TNoneT):
                ety = y.ty.elem if isinstance(y.ty, TSeq) else (y.t[0].ty if isinstance(y.ty, TTuple) and y.t else None)
                if ety is not None and not isinstance(ety, TNoneT):
                    oty = ety if isinstance(ety, TOpt) else TOpt(ety)
                    sq = TSeq(oty)
                    lifted = Val(sq, sq.mk(x.ty.len(x.t), z3.K(z3.IntSort(), oty.none())), x.mut)
                    if x is a:
                        a = lifted
                    else:
                        b = lifted
        if isinstance(a.ty, TTuple):
            a = self.coerce(a, b.ty, st, node)
        if isinstance(b.ty, TTuple):
            b = self.coerce(b, a.ty, st, node)
        if not isinstance(a.ty, TSeq) or a.ty.name != b.ty.name:
            raise Unsupported("concat of different sequence sorts", node)
        ty = a.ty
        r = ty.fresh("cat")
        i = z3.Int(fresh_name("ci"))
        ri = z3.Select(ty.arr(r.t), i)
        na, nb = ty.len(a.t), ty.len(b.t)
        st.assume(ty.len(r.t) == na + nb)
        st.assume(z3.ForAll([i], z3.Implies(z3.And(0 <= i, i < na + nb),
                                            ri == z3.If(i < na, z3.Select(ty.arr(a.t), i),
                                                        z3.Select(ty.arr(b.t), i - na))), patterns=[ri]))
        # the same link stated from the operands' side: a ground a[t] (b[t]) makes its position in the result known
        ai, bi = z3.Select(ty.arr(a.t), i), z3.Select(ty.arr(b.t), i)
        st.assume(z3.ForAll([i], z3.Implies(z3.And(0 <= i, i < na), ri == ai), patterns=[ai]))
        st.assume(z3.ForAll([i], z3.Implies(z3.And(0 <= i, i < nb), z3.Select(ty.arr(r.t), na + i) == bi), patterns=[bi]))
        return r

    def e_Compare(self, node, st):
        left = None
        if isinstance(node.ops[0], (ast.Eq, ast.NotEq)) and isinstance(node.left, ast.Call) and \
                isinstance(node.left.func, ast.Attribute) and node.left.func.attr == "keys" and not node.left.args:
            left = self._as_set(node.left, st)  # keys views compare as sets (not in iteration order)
        if left is None:
            left = self.eval(node.left, st)
        terms = []
        saved = list(st.guards)
        for op, rn in zip(node.ops, node.comparators):
            right = None
            if isinstance(op, (ast.Eq, ast.NotEq)) and isinstance(left.ty, TSet):
                right = self._as_set(rn, st)  # (a keys view compared with a set: the set of the keys)
            if right is None:
                right = self.eval(rn, st)
            t = self.compare(op, left, right, st, node)
            terms.append(t)
            st.guards.append(t)
            left = right
        st.guards[:] = saved
        return Val(TBool, z3.And(*terms) if len(terms) > 1 else terms[0])

    def compare(self, op, a: Val, b: Val, st, node):
        if isinstance(op, (ast.Is, ast.IsNot)):
            if isinstance(b.ty, TNoneT):
                if isinstance(a.ty, TOpt):
                    r = a.ty.is_none(a.t)
                elif isinstance(a.ty, TUnion) and "none" in [t for t, _ in a.ty.alts]:
                    r = a.ty.is_("none", a.t)
                elif a.ty is TObj:  # an arbitrary object may be None
                    r = a.t == TObj.lit(None)
                else:
                    r = z3.BoolVal(isinstance(a.ty, TNoneT))
                return r if isinstance(op, ast.Is) else z3.Not(r)
            if isinstance(a.ty, TRec) and getattr(a.ty, "identity", None) and b.ty is TObj:
                a = self.coerce(a, TObj, st, node)  # an object seen through a record view: its identity
            if isinstance(b.ty, TRec) and getattr(b.ty, "identity", None) and a.ty is TObj:
                b = self.coerce(b, TObj, st, node)
            if a.ty is TObj and b.ty is TObj:
                # identity of two opaque objects: the terms of the sort stand for the objects themselves
                r = a.t == b.t
                return r if isinstance(op, ast.Is) else z3.Not(r)
            raise Unsupported("identity comparison with a non-None value", node)
        if isinstance(op, (ast.In, ast.NotIn)):
            r = self.contains(b, a, st, node)
            return r if isinstance(op, ast.In) else z3.Not(r)
        if isinstance(op, (ast.Eq, ast.NotEq)):
            if isinstance(a.ty, TTuple) or isinstance(b.ty, TTuple):
                if isinstance(a.ty, TTuple) and isinstance(b.ty, TTuple):
                    if len(a.t) != len(b.t):
                        r = z3.BoolVal(False)
                    else:
                        r = z3.And(*[self.compare(ast.Eq(), x, y, st, node) for x, y in zip(a.t, b.t)]) \
                            if a.t else z3.BoolVal(True)
                    return r if isinstance(op, ast.Eq) else z3.Not(r)
                a, b = self.unify(a, b, st, node) if False else (a, b)
                if isinstance(a.ty, TTuple):
                    a = self.coerce(a, b.ty, st, node)
                else:
                    b = self.coerce(b, a.ty, st, node)
            if isinstance(a.ty, TSeq) and isinstance(b.ty, TSeq):
                r = self.seq_eq(a, b)
            elif isinstance(a.ty, TSet) and isinstance(b.ty, TSet) and a.ty.key.name != b.ty.key.name:
                r = self._set_eq_across(a, b, node)
            else:
                a, b = self.unify(a, b, st, node)
                r = a.t == b.t
            return r if isinstance(op, ast.Eq) else z3.Not(r)
        if a.ty is TReal or b.ty is TReal:
            x = a.t if a.ty is TReal else z3.ToReal(self.as_int(a, st, node))
            y = b.t if b.ty is TReal else z3.ToReal(self.as_int(b, st, node))
        else:
            x, y = self.as_int(a, st, node), self.as_int(b, st, node)
        if isinstance(op, ast.Lt):
            return x < y
        if isinstance(op, ast.LtE):
            return x <= y
        if isinstance(op, ast.Gt):
            return x > y
        if isinstance(op, ast.GtE):
            return x >= y
        raise Unsupported("comparison operator", node)

    def _set_eq_across(self, a: Val, b: Val, node):
        """Equality of a set of union values U and a set of values of one alternative A of U (e.g. {str | tuple} vs a
        dict's str keys): equal iff every member of the first is an A that is in the second, and every member of the second
        is in the first - Python compares by membership, a tuple is never equal to a str."""
        if isinstance(b.ty.key, TUnion):
            a, b = b, a
        if not isinstance(a.ty.key, TUnion):
            raise Unsupported("comparison of sets of unrelated sorts", node)
        tags = [t for t, aty in a.ty.key.alts if aty is not None and aty.name == b.ty.key.name]
        if len(tags) != 1:
            raise Unsupported("comparison of sets of unrelated sorts", node)
        u = a.ty.key
        x = z3.Const(fresh_name("sx"), u.sort())
        return z3.ForAll([x], z3.Select(a.ty.mem(a.t), x) == z3.And(
            u.is_(tags[0], x), z3.Select(b.ty.mem(b.t), u.get(tags[0], x))),
            patterns=[z3.Select(a.ty.mem(a.t), x), u.is_(tags[0], x)])  # (either term makes the instance available)

    def seq_eq(self, a: Val, b: Val):
        """Python == on sequences is extensional; the datatype term equality is not (junk beyond len)."""
        ty = a.ty
        i = z3.Int(fresh_name("ei"))
        return z3.And(ty.len(a.t) == ty.len(b.t),
                      z3.ForAll([i], z3.Implies(z3.And(0 <= i, i < ty.len(a.t)),
                                                z3.Select(ty.arr(a.t), i) == z3.Select(ty.arr(b.t), i))))

    def contains(self, cont: Val, x: Val, st, node):
        if isinstance(cont.ty, TDict):
            k = self.coerce(x, cont.ty.key, st, node)
            return z3.Select(cont.ty.dom(cont.t), k.t)
        if isinstance(cont.ty, TSet):
            k = self.coerce(x, cont.ty.key, st, node)
            return z3.Select(cont.ty.mem(cont.t), k.t)
        if isinstance(cont.ty, TSeq):
            k = self.coerce(x, cont.ty.elem, st, node)
            i = z3.Int(fresh_name("mi"))
            return z3.Exists([i], z3.And(0 <= i, i < cont.ty.len(cont.t), z3.Select(cont.ty.arr(cont.t), i) == k.t))
        if isinstance(cont.ty, TTuple):
            return z3.Or(*[self.compare(ast.Eq(), y, x, st, node) for y in cont.t]) if cont.t else z3.BoolVal(False)
        if isinstance(cont.ty, TRec) and f"{cont.ty.name}.__contains__" in self.registry:
            r = self.apply_contract(self.registry[f"{cont.ty.name}.__contains__"], [cont, x], {}, st, node)
            return r.t  # `x in obj` through the class's __contains__ contract
        raise Unsupported(f"membership in {cont.ty}", node)

    # ---- comprehensions --------------------------------------------------------------------------------
    def comp_parts(self, node, st: State):
        """Single-generator comprehension -> (n, i_const, elem Val, cond Bool|None, raises list)."""
        if len(node.generators) != 1:
            raise Unsupported("comprehension with several generators", node)
        g = node.generators[0]
        if g.is_async:
            raise Unsupported("async comprehension", node)
        n, elem = self.eval_iter(g.iter, st)
        ic = z3.Int(fresh_name("ci"))
        from .types import _counter as _cnt
        import itertools as _it
        mark = next(_cnt)
        inner = st.copy()
        inner.env = dict(st.env)
        sink: list = []
        inner.qctx = st.qctx + [sink]
        inner.guards = list(st.guards)
        self.bind(g.target, elem(ic), inner, node)
        cond = None
        for c in g.ifs:
            t = self.truthy(self.eval(c, inner))
            cond = t if cond is None else z3.And(cond, t)
            inner.guards.append(t)
            for nm, rv in self.refinements(c, inner, True).items():  # `... for x in xs if x is not None`
                inner.env[nm] = rv
        if isinstance(node, ast.DictComp):
            e = (self.eval(node.key, inner), self.eval(node.value, inner))
        else:
            e = self.eval(node.elt, inner)
        # quantified-context assumptions made while evaluating the body (e.g. fresh results of callee contracts)
        extra = inner.pc[len(st.pc):]
        # A symbol created *inside* the body (result of a callee contract, an inner comprehension, ...) is a value per
        # index: it is replaced by a skolem function of the bound index, so that the assumptions made about it in the
        # body hold per index (they are quantified over the index below).  Fresh *functions* are not lifted: refused.
        terms = list(extra) + [c_ for c_, _, _ in sink]
        if cond is not None:
            terms.append(cond)
        for ee in (e if isinstance(e, tuple) else (e,)):
            if isinstance(ee.t, list):
                raise Unsupported("comprehension yielding heterogeneous tuples", node)
            terms.append(ee.t)
        fresh_consts: dict[str, Any] = {}
        for t_ in terms:
            for x_ in _uninterpreted_apps(t_):
                nm = x_.decl().name()
                if "!" not in nm or nm == str(ic):
                    continue
                try:
                    idx_ = int(nm.rsplit("!", 1)[1])
                except ValueError:
                    continue
                if idx_ > mark:
                    if x_.num_args() > 0:
                        raise Unsupported(f"fresh function {nm} created inside a comprehension body", node)
                    fresh_consts[nm] = x_
        if fresh_consts:
            subs = [(c_, z3.Function(fresh_name("sk:" + nm.split("!")[0]), z3.IntSort(), c_.sort())(ic))
                    for nm, c_ in fresh_consts.items()]
            lift = lambda t_: z3.substitute(t_, *subs)  # noqa: E731
            extra = [lift(h) for h in extra]
            sink[:] = [(lift(c_), exc_, ln_) for c_, exc_, ln_ in sink]
            if cond is not None:
                cond = lift(cond)
            if isinstance(e, tuple):
                e = tuple(Val(ee.ty, lift(ee.t), ee.mut) for ee in e)
            else:
                e = Val(e.ty, lift(e.t), e.mut)
        rng = z3.And(0 <= ic, ic < n)
        marks = self._sink_marks.pop(id(sink), [])
        base_len = len(st.pc)  # (the loop below adds to st.pc: the marks count from the length before it)
        for q_, (cnd, exc, line) in enumerate(sink):
            known = extra[:max(0, marks[q_] - base_len)] if q_ < len(marks) else []
            self.do_raise_q(st, z3.And(rng, *known, cnd), exc, line)
            j = z3.Int(fresh_name("cj"))
            st.assume(z3.ForAll([j], z3.Implies(z3.And(0 <= j, j < n), z3.Not(z3.substitute(cnd, (ic, j))))))
        for h in extra:
            j = z3.Int(fresh_name("cj"))
            st.assume(z3.ForAll([j], z3.Implies(z3.And(0 <= j, j < n), z3.substitute(h, (ic, j)))))
        return n, ic, e, cond

    def do_raise_q(self, st, cond, exc, line):
        if st.qctx:
            st.qctx[-1].append((cond, exc, line))
            # how many assumptions had been made in the body when this raise point was reached: they (and only they)
            # are known to hold for the element that raises
            self._sink_marks.setdefault(id(st.qctx[-1]), []).append(len(st.pc))
        else:
            self.do_raise(st, exc, line, cond)

    def _spec_arrays(self) -> list:
        """Boolean spec arrays (terms `spec:<name>(args)`) introduced by the axioms of the contract under verification."""
        if getattr(self, "_spec_arrays_for", None) is not self.pre_pc:
            found: dict = {}
            for h in self.pre_pc:
                for x in _uninterpreted_apps(h):
                    if x.num_args() > 0 and x.decl().name().startswith("spec:") and isinstance(x.sort(), z3.ArraySortRef) \
                            and x.sort().range() == z3.BoolSort():
                        found[x.get_id()] = x
            self._spec_arrays_cache, self._spec_arrays_for = list(found.values()), self.pre_pc
        return self._spec_arrays_cache

    def comp_to_seq(self, node, st: State, hint: Ty | None = None) -> Val:
        n, ic, e, cond = self.comp_parts(node, st)
        if isinstance(e.ty, TTuple):
            raise Unsupported("comprehension of heterogeneous tuples", node)
        ety = e.ty
        if isinstance(hint, TSeq):
            e = self.coerce(e, hint.elem, st, node)
            ety = hint.elem
        ty = TSeq(ety)
        r = ty.fresh("comp")
        j = z3.Int(fresh_name("cj"))
        rj = z3.Select(ty.arr(r.t), j)
        if cond is None:
            st.assume(ty.len(r.t) == z3.If(n > 0, n, 0))
            body = z3.substitute(e.t, (ic, j))
            # also instantiate from the source side: a ground xs[t] creates comp[t] (two-way link between the lists)
            src = [x for x in _select_subterms(body, j) if not _has_ite(x)][:1]
            st.assume(z3.ForAll([j], z3.Implies(z3.And(0 <= j, j < n), rj == body), patterns=[rj, *src]))
        else:
            # filter: C[j] = cond(j); position of element j in the result is cnt(C, j)
            cs = z3.simplify(cond)
            neg = z3.is_not(cs)
            core = cs.arg(0) if neg else cs
            C = None
            if z3.is_select(core) and core.arg(1).eq(ic) and not _mentions(core.arg(0), ic):
                if not neg:
                    C = core.arg(0)  # the condition *is* a boolean sequence: count in it directly
                else:
                    # pointwise complement everywhere; instance of lemma L7b: cnt(C,j) = j - cnt(M,j)
                    M = core.arg(0)
                    C = z3.Const(fresh_name("cmpl"), z3.ArraySort(z3.IntSort(), z3.BoolSort()))
                    st.assume(z3.ForAll([j], z3.Select(C, j) == z3.Not(z3.Select(M, j)),
                                        patterns=[z3.Select(C, j), z3.Select(M, j)]))
                    st.assume(z3.ForAll([j], z3.Implies(j >= 0, f_cnt(C, j) == j - f_cnt(M, j)),
                                        patterns=[f_cnt(C, j), f_cnt(M, j)]))
            src = []
            if C is None:
                C = z3.Const(fresh_name("flt"), z3.ArraySort(z3.IntSort(), z3.BoolSort()))
                cond_j = z3.substitute(cond, (ic, j))
                # (also triggered from the source side: a ground xs[t] makes flt[t] known)
                src = [x for x in _select_subterms(cond_j, j) if not _has_ite(x)][:1]
                st.assume(z3.ForAll([j], z3.Implies(z3.And(0 <= j, j < n), z3.Select(C, j) == cond_j),
                                    patterns=[z3.Select(C, j), *src]))
            cj = z3.Select(C, j)
            st.assume(ty.len(r.t) == f_cnt(C, z3.If(n > 0, n, 0)))
            st.assume(z3.ForAll([j], z3.Implies(z3.And(0 <= j, j < n, cj),
                                                z3.Select(ty.arr(r.t), f_cnt(C, j)) == z3.substitute(e.t, (ic, j))),
                                patterns=[f_cnt(C, j), z3.Select(C, j)]))
            if src:  # the same, stated with the condition itself and triggered from the source side (xs[t] is a term)
                st.assume(z3.ForAll([j], z3.Implies(
                    z3.And(0 <= j, j < n, z3.substitute(cond, (ic, j))),
                    z3.And(z3.Select(C, j), z3.Select(ty.arr(r.t), f_cnt(C, j)) == z3.substitute(e.t, (ic, j)),
                           0 <= f_cnt(C, j), f_cnt(C, j) < ty.len(r.t))), patterns=src))
            # an element that passes lands inside the result (instance of lemma L1c with len = cnt(C, n))
            st.assume(z3.ForAll([j], z3.Implies(z3.And(0 <= j, j < n, cj),
                                                z3.And(0 <= f_cnt(C, j), f_cnt(C, j) < ty.len(r.t))),
                                patterns=[f_cnt(C, j), z3.Select(C, j)]))
            # every element of the result comes from a source position that passed the filter (ghost inverse `src_of`)
            src_of = z3.Function(fresh_name("srcof"), z3.IntSort(), z3.IntSort())
            t_ = z3.Int(fresh_name("ct"))
            rt = z3.Select(ty.arr(r.t), t_)
            st.assume(z3.ForAll([t_], z3.Implies(z3.And(0 <= t_, t_ < ty.len(r.t)),
                                                 z3.And(0 <= src_of(t_), src_of(t_) < n, z3.Select(C, src_of(t_)),
                                                        f_cnt(C, src_of(t_)) == t_)), patterns=[rt, src_of(t_)]))
            # the contract may describe the same filter by a spec array of its own (S.defarray): lemma L9 for each
            for D in self._spec_arrays():
                if not D.eq(C):
                    from .spec import l9_instance
                    st.assume(l9_instance(C, D))
            # the result is empty iff nothing passes the filter (ground instance at t = 0, and the converse)
            st.assume(z3.Implies(ty.len(r.t) > 0, z3.And(0 <= src_of(0), src_of(0) < n, z3.Select(C, src_of(0)))))
            st.assume(z3.Implies(ty.len(r.t) == 0, z3.ForAll([j], z3.Implies(z3.And(0 <= j, j < n), z3.Not(cj)),
                                                             patterns=[cj])))
            self.last_filter = C
        st.pc += ty.wf(r.t)
        return r

    def e_SetComp(self, node, st, hint=None):
        """{E for x in XS}  and  {E for x in XS for y in YS(x)}  (no filters): k is a member iff some (pair of) source
        position(s) yields it.  Values created while evaluating the iterables / the element (results of callee
        contracts) are lifted to functions of the bound positions, and what is assumed about them is quantified."""
        gens = node.generators
        if not 1 <= len(gens) <= 2 or any(g.ifs or g.is_async for g in gens):
            raise Unsupported("set comprehension form", node)
        from .types import _counter as _cnt
        inner = st.copy()
        inner.env = dict(st.env)
        sink: list = []
        inner.qctx = st.qctx + [sink]
        idx, rngs = [], []
        mark = next(_cnt)
        level_of: list[int] = []  # per assumption made inside: how many generator variables were bound at that time
        marks: list[int] = []  # symbol counter when generator variable #l was bound: later symbols depend on it
        for g in gens:
            n_, elem_ = self.eval_iter(g.iter, inner)
            level_of += [len(idx)] * (len(inner.pc) - len(st.pc) - len(level_of))
            marks.append(next(_cnt))
            ic = z3.Int(fresh_name("si"))
            idx.append(ic)
            rngs.append(z3.And(0 <= ic, ic < n_))
            self.bind(g.target, elem_(ic), inner, node)
        e = self.eval(node.elt, inner)
        if sink:
            raise Unsupported("set comprehension whose body may raise", node)
        extra = inner.pc[len(st.pc):]
        level_of += [len(idx)] * (len(extra) - len(level_of))
        terms = list(extra) + [e.t] + rngs
        fresh_consts: dict[str, Any] = {}
        for t_ in terms:
            for x_ in _uninterpreted_apps(t_):
                nm = x_.decl().name()
                if "!" not in nm or any(nm == str(i_) for i_ in idx):
                    continue
                try:
                    k_ = int(nm.rsplit("!", 1)[1])
                except ValueError:
                    continue
                if k_ > mark:
                    if x_.num_args() > 0:
                        raise Unsupported(f"fresh function {nm} created inside a comprehension body", node)
                    fresh_consts[nm] = x_
        def depth(nm):  # number of generator variables bound before the symbol was created
            k_ = int(nm.rsplit("!", 1)[1])
            return sum(1 for m_ in marks if k_ > m_)
        subs = []
        for nm, c_ in fresh_consts.items():
            dvars = idx[:depth(nm)]
            subs.append((c_, z3.Function(fresh_name("sk:" + nm.split("!")[0]), *[z3.IntSort()] * len(dvars), c_.sort())(*dvars)
                         if dvars else c_))
        lift = (lambda t_: z3.substitute(t_, *subs)) if subs else (lambda t_: t_)
        extra = [lift(h) for h in extra]
        rngs = [lift(r_) for r_ in rngs]
        et = lift(e.t)
        js = [z3.Int(fresh_name("sj")) for _ in idx]
        ren = list(zip(idx, js))
        in_range = z3.substitute(z3.And(*rngs), *ren)
        for h, lv in zip(extra, level_of):
            # an assumption made while only the first `lv` variables were bound holds for every such prefix
            if lv == 0:
                st.assume(h)
                continue
            pre_range = z3.substitute(z3.And(*rngs[:lv]), *ren)
            st.assume(z3.ForAll(js[:lv], z3.Implies(pre_range, z3.substitute(h, *ren))))
        ty = TSet(e.ty)
        r = ty.fresh("setcomp")
        k = z3.Const(fresh_name("sk"), e.ty.sort())
        ej = z3.substitute(et, *ren)
        st.assume(z3.ForAll([k], z3.Select(ty.mem(r.t), k) == z3.Exists(js, z3.And(in_range, ej == k)),
                            patterns=[z3.Select(ty.mem(r.t), k)]))
        st.assume(z3.ForAll(js, z3.Implies(in_range, z3.Select(ty.mem(r.t), ej)), patterns=[z3.Select(ty.mem(r.t), ej)]))
        st.assume(ty.card(r.t) >= 0)
        st.assume((ty.card(r.t) == 0) == z3.Not(z3.Exists(js, in_range)))
        return r

    def e_ListComp(self, node, st, hint=None):
        v = self.comp_to_seq(node, st, hint)
        v.mut = True
        return v

    def e_GeneratorExp(self, node, st):
        return self.comp_to_seq(node, st)

    # ---- calls -----------------------------------------------------------------------------------------
    def e_Call(self, node, st, hint=None):
        f = node.func
        if isinstance(f, ast.Name):
            b = getattr(self, "b_" + f.id, None)
            if b is not None and f.id not in st.env:
                return b(node, st, hint)
            if f.id in getattr(st, "closures", {}):
                return self._inline_closure(f.id, node, st)
            if f.id in st.env and isinstance(st.env[f.id].ty, TRec) and f"{st.env[f.id].ty.name}.__call__" in self.registry:
                # a callable object held in a variable: its class's __call__ contract (receiver = the object)
                c = self.registry[f"{st.env[f.id].ty.name}.__call__"]
                args = [st.env[f.id]] + [self.eval(a, st) for a in node.args]
                r = self.apply_contract(c, args, self._kwargs(node, st), st, node)
                if "self" in c.modifies:
                    st.env[f.id] = self._post_vals["self"]
                self._writeback_modified(c, node, 1, st)
                return r
            if f.id in self.registry:
                args = [self.eval(a, st) for a in node.args]
                kw = self._kwargs(node, st)
                c = self.registry[f.id]
                r = self.apply_contract(c, args, kw, st, node)
                self._writeback_modified(c, node, 0, st)
                return r
            raise Unsupported(f"call to {f.id} (no contract)", node)
        if isinstance(f, ast.Attribute):
            return self.method_call(node, st, hint)
        raise Unsupported("call of a computed function", node)

    def apply_contract(self, c: Contract, args: list[Val], kw: dict[str, Val], st: State, node,
                       self_lv: ast.expr | None = None) -> Val:
        names = list(c.params)
        bound: dict[str, Val] = {}
        for n_, v in zip(names, args):
            bound[n_] = v
        for k, v in kw.items():
            if k not in c.params:
                raise Unsupported(f"unknown keyword {k} for {c.name}", node)
            bound[k] = v
        for n_ in names:
            if n_ not in bound:
                if n_ in c.defaults:
                    d = c.defaults[n_]
                    bound[n_] = VNone if d is None else Val(c.params[n_], c.params[n_].lit(d)) \
                        if not isinstance(c.params[n_], TOpt) else Val(c.params[n_], c.params[n_].lit(d))
                else:
                    raise Unsupported(f"missing argument {n_} for {c.name}", node)
        for n_ in names:
            bound[n_] = self.coerce(bound[n_], c.params[n_], st, node)
        a = self._ns(bound)
        st.exact = False
        if c.requires:
            for name, cl in c.requires(SYM, a).items():
                self.oblige(st, f"call:{c.name}:requires[{name}]", cl, node.lineno, "pre")
                if not _contains_quantifier_term(cl):
                    st.assume(cl)  # (a quantified precondition follows from what is known; re-assuming it only adds
                    #                 instantiation work - and, with inferred triggers, matching loops)
        for exc, condfn in c.raises:
            self.raise_if(st, condfn(SYM, a), exc, node.lineno)
        rty = c.returns or TNone
        if isinstance(rty, TNoneT):
            r = VNone
        elif c.pure and not c.modifies and not isinstance(rty, TTuple):
            key = c.qualname
            if key not in self.pure_fns:
                self.pure_fns[key] = z3.Function("fn:" + c.name, *[c.params[n_].sort() for n_ in names], rty.sort())
            r = Val(rty, self.pure_fns[key](*[bound[n_].t for n_ in names]))
        else:
            r = rty.fresh("ret:" + c.short)
        for w in rty.wf(r.t):
            st.assume(w)
        post_vals = {}
        for p in c.modifies:
            nv = c.params[p].fresh(p + "'")
            nv.mut = True
            post_vals[p] = nv
            for w in nv.ty.wf(nv.t):
                st.assume(w)
        if c.ensures:
            for _, cl in c.ensures(SYM, a, unwrap(r), self._ns(post_vals)).items():
                st.assume(cl)
                if isinstance(cl, z3.ExprRef):
                    self.callee_facts[cl.get_id()] = cl  # (kept alive: ids are only unique among live terms)
        self._post_vals = post_vals
        return r

    def _writeback_modified(self, c: Contract, node: ast.Call, offset: int, st: State):
        """The callee's contract modifies some of its arguments: store their new values through the argument
        expressions (names / attributes / subscripts).  `offset`: 1 when the first parameter is the receiver."""
        post = dict(self._post_vals)
        names = list(c.params)
        for p in c.modifies:
            i = names.index(p) - offset
            if i < 0:
                continue  # the receiver: handled by the caller
            expr = node.args[i] if i < len(node.args) and not isinstance(node.args[i], ast.Starred) else \
                next((k.value for k in node.keywords if k.arg == p), None)
            if expr is None:
                continue  # defaulted argument: a fresh object the caller cannot see
            if not isinstance(expr, (ast.Name, ast.Attribute, ast.Subscript)):
                raise Unsupported(f"argument for the modified parameter {p} of {c.name} is not an l-value", node)
            self.assign(expr, post[p], st, node, writeback=True)

    def _kwargs(self, node: ast.Call, st: State) -> dict:
        kw = {}
        for k in node.keywords:
            v = self.eval(k.value, st)
            if k.arg is None:  # **record
                if not isinstance(v.ty, TRec):
                    raise Unsupported("** of a non-record", node)
                for fname in v.ty.fields:
                    kw[fname] = v.ty.get(v.t, fname)
            else:
                kw[k.arg] = v
        return kw

    def method_call(self, node: ast.Call, st: State, hint=None) -> Val:
        f: ast.Attribute = node.func
        name = f.attr
        if isinstance(f.value, ast.Name) and f.value.id == "itertools" and name == "repeat" and "itertools" not in st.env:
            kw0 = {k.arg: k.value for k in node.keywords}
            arg = node.args[0] if node.args else kw0.get("object")
            if arg is None or len(node.args) > 1 or "times" in kw0:
                raise Unsupported("itertools.repeat form", node)
            x = self.eval(arg, st)
            ty_ = TSeq(x.ty)  # an endless iterable: the constant array; its length is never used (it never bounds a zip)
            r = Val(ty_, ty_.mk(z3.Int(fresh_name("inf")), z3.K(z3.IntSort(), x.t)), False)
            r.inf = True
            return r
        if isinstance(f.value, ast.Name) and f.value.id not in st.env and f"{f.value.id}.{name}" in self.registry:
            c = self.registry[f"{f.value.id}.{name}"]  # call through the class: Resources._convert_to_gb(x)
            if not c.static:
                raise Unsupported("unbound method call through the class", node)
            return self.apply_contract(c, [self.eval(a, st) for a in node.args], self._kwargs(node, st), st, node)
        recv = self.eval(f.value, st)
        if recv.ty is TSlice and name == "indices" and len(node.args) == 1 and not node.keywords:
            # slice.indices(n): a triple of ints, each an (uninterpreted) function of the slice and n
            n_ = self.as_int(self.eval(node.args[0], st), st, node)
            self.raise_if(st, slice_zero_step_fn()(recv.t), "ValueError", L if False else node.lineno)  # "slice step cannot be zero"
            st.assume(slice_indices_fn(2)(recv.t, n_) != 0)  # (the step it returns is the slice's own, or 1)
            return Val(TTuple([TInt, TInt, TInt]), [Val(TInt, slice_indices_fn(i)(recv.t, n_)) for i in range(3)])
        if recv.ty is TStr and name == "join" and len(node.args) == 1:
            self.eval(node.args[0], st)  # (evaluated for its exceptions; the text itself is opaque)
            return TStr.fresh("joined")
        if isinstance(recv.ty, TUnion) and name in ("index", "count"):
            seq_alt = next((aty for _, aty in recv.ty.alts if isinstance(aty, TSeq)), None)
            if seq_alt is not None:  # str has these methods too, with another meaning: only the tuple reading is modelled
                recv = self.coerce(recv, seq_alt, st, node)
        if isinstance(recv.ty, TRec) and getattr(self.registry.get(f"{recv.ty.name}.{name}"), "star_call", False):
            c = self.registry[f"{recv.ty.name}.{name}"]
            if not (len(node.args) == 1 and isinstance(node.args[0], ast.Starred) and len(node.keywords) == 1
                    and node.keywords[0].arg is None):
                raise Unsupported("call of a stored callable in another form than f(*args, **kwargs)", node)
            r = self.apply_contract(c, [recv, self.eval(node.args[0].value, st), self.eval(node.keywords[0].value, st)],
                                    {}, st, node)
            first = next(iter(c.params))
            if first in c.modifies:
                self.assign(f.value, self._post_vals[first], st, node, writeback=True)
            return r
        starred = None
        if node.args and isinstance(node.args[-1], ast.Starred) and isinstance(recv.ty, TRec):
            # obj.m(a, *xs): allowed when the callee's contract declares the parameter at that position as its `*vararg`
            # (checked against the callee's signature where that contract is verified): xs is what the vararg receives
            c_ = self.registry.get(f"{recv.ty.name}.{name}")
            pos = len(node.args) - 1 + 1  # (+1: the receiver)
            if c_ is not None and c_.vararg is not None and list(c_.params).index(c_.vararg) == pos:
                starred = self.eval(node.args[-1].value, st)
        args = [self.eval(a, st) for a in (node.args[:-1] if starred is not None else node.args)]
        if starred is not None:
            args.append(starred)
        kw = self._kwargs(node, st)
        L = node.lineno
        if isinstance(recv.ty, TRec):
            cname = f"{recv.ty.name}.{name}"
            if cname in self.registry and self.registry[cname].static:
                return self.apply_contract(self.registry[cname], args, kw, st, node)
            if cname in self.registry:
                c = self.registry[cname]
                r = self.apply_contract(c, [recv] + args, kw, st, node)
                post = dict(self._post_vals)
                first = next(iter(c.params))
                if first in c.modifies:
                    self.assign(f.value, post[first], st, node, writeback=True)
                self._post_vals = post
                self._writeback_modified(c, node, 1, st)
                return r
            raise Unsupported(f"method {cname} (no contract)", node)
        if isinstance(recv.ty, TSeq):
            ty = recv.ty
            n = ty.len(recv.t)
            if name == "append":
                x = self.coerce(args[0], ty.elem, st, node)
                self.assign(f.value, Val(ty, ty.mk(n + 1, z3.Store(ty.arr(recv.t), n, x.t)), True), st, node, writeback=True)
                return VNone
            if name == "extend" and len(args) == 1:
                tail = args[0]
                if isinstance(tail.ty, TTuple):
                    tail = self.coerce(tail, ty, st, node)
                if not isinstance(tail.ty, TSeq) or tail.ty.name != ty.name:
                    raise Unsupported("extend with another kind of iterable", node)
                cat = self.concat(recv, tail, st, node)
                cat.mut = True
                self.assign(f.value, cat, st, node, writeback=True)
                return VNone
            if name == "pop" and (not args or z3.is_int_value(z3.simplify(args[0].t))):
                self.raise_if(st, n <= 0, "IndexError", L)
                if args and z3.simplify(args[0].t).as_long() == 0:
                    r = ty.fresh("popped")
                    i = z3.Int(fresh_name("pi"))
                    ri = z3.Select(ty.arr(r.t), i)
                    st.assume(ty.len(r.t) == n - 1)
                    st.assume(z3.ForAll([i], z3.Implies(z3.And(0 <= i, i < n - 1),
                                                        ri == z3.Select(ty.arr(recv.t), i + 1)), patterns=[ri]))
                    out = Val(ty.elem, z3.Select(ty.arr(recv.t), 0))
                    self.assign(f.value, Val(ty, r.t, True), st, node, writeback=True)
                    return out
                if not args or z3.simplify(args[0].t).as_long() == -1:
                    out = Val(ty.elem, z3.Select(ty.arr(recv.t), n - 1))
                    self.assign(f.value, Val(ty, ty.mk(n - 1, ty.arr(recv.t)), True), st, node, writeback=True)
                    return out
            if name == "remove":
                # removes the FIRST equal element; ValueError if absent.  p = its position (ghost, skolem).
                x = self.coerce(args[0], ty.elem, st, node)
                p = z3.Int(fresh_name("rp"))
                i = z3.Int(fresh_name("ri"))
                present = z3.Exists([i], z3.And(0 <= i, i < n, z3.Select(ty.arr(recv.t), i) == x.t))
                self.raise_if(st, z3.Not(present), "ValueError", L)
                st.assume(z3.And(0 <= p, p < n, z3.Select(ty.arr(recv.t), p) == x.t))
                st.assume(z3.ForAll([i], z3.Implies(z3.And(0 <= i, i < p), z3.Select(ty.arr(recv.t), i) != x.t)))
                r = ty.fresh("removed")
                ri = z3.Select(ty.arr(r.t), i)
                st.assume(ty.len(r.t) == n - 1)
                st.assume(z3.ForAll([i], z3.Implies(z3.And(0 <= i, i < n - 1),
                                                    ri == z3.If(i < p, z3.Select(ty.arr(recv.t), i),
                                                                z3.Select(ty.arr(recv.t), i + 1))), patterns=[ri]))
                self.ghost_remove_pos = p
                self.assign(f.value, Val(ty, r.t, True), st, node, writeback=True)
                return VNone
            if name == "index":
                x = self.coerce(args[0], ty.elem, st, node)
                p = z3.Int(fresh_name("ip"))
                i = z3.Int(fresh_name("ii"))
                present = z3.Exists([i], z3.And(0 <= i, i < n, z3.Select(ty.arr(recv.t), i) == x.t))
                self.raise_if(st, z3.Not(present), "ValueError", L)
                st.assume(z3.And(0 <= p, p < n, z3.Select(ty.arr(recv.t), p) == x.t))
                st.assume(z3.ForAll([i], z3.Implies(z3.And(0 <= i, i < p), z3.Select(ty.arr(recv.t), i) != x.t)))
                return Val(TInt, p)
        if isinstance(recv.ty, TDict):
            ty = recv.ty
            if name == "get":
                k = self.coerce(args[0], ty.key, st, node)
                has = z3.Select(ty.dom(recv.t), k.t)
                v = Val(ty.val, z3.Select(ty.vals(recv.t), k.t))
                if len(args) > 1:
                    d, v2 = self.unify(args[1], v, st, node)
                    return Val(d.ty, z3.If(has, v2.t, d.t))
                if isinstance(ty.val, TOpt):  # values may themselves be None: d.get(k) cannot tell absent from None
                    return Val(ty.val, z3.If(has, v.t, ty.val.none()))
                o = TOpt(ty.val)
                return Val(o, z3.If(has, o.some(v.t), o.none()))
            if name == "pop":
                k = self.coerce(args[0], ty.key, st, node)
                has = z3.Select(ty.dom(recv.t), k.t)
                v = Val(ty.val, z3.Select(ty.vals(recv.t), k.t))
                if len(args) == 1:
                    self.raise_if(st, z3.Not(has), "KeyError", L)
                    new = ty.mk(z3.Store(ty.dom(recv.t), k.t, False), ty.vals(recv.t), ty.size(recv.t) - 1)
                    self.assign(f.value, Val(ty, new, True), st, node, writeback=True)
                    return v
            if name == "clear":
                self.assign(f.value, Val(ty, ty.mk(z3.K(ty.key.sort(), z3.BoolVal(False)), ty.vals(recv.t),
                                                   z3.IntVal(0)), True), st, node, writeback=True)
                return VNone
            if name == "keys" and not args:
                return self.dict_order(recv, st)
        if isinstance(recv.ty, TSet) and name in ("add", "discard") and len(args) == 1:
            ty = recv.ty
            x = self.coerce(args[0], ty.key, st, node)
            had = z3.Select(ty.mem(recv.t), x.t)
            if name == "add":
                new = ty.mk(z3.Store(ty.mem(recv.t), x.t, True), z3.If(had, ty.card(recv.t), ty.card(recv.t) + 1))
            else:
                new = ty.mk(z3.Store(ty.mem(recv.t), x.t, False), z3.If(had, ty.card(recv.t) - 1, ty.card(recv.t)))
            self.assign(f.value, Val(ty, new, True), st, node, writeback=True)
            return VNone
        if isinstance(recv.ty, TSet) and name == "update" and len(args) == 1:
            # s.update(xs): membership afterwards = membership before, or occurrence in xs (a sequence or a set)
            ty = recv.ty
            xs = args[0]
            if isinstance(xs.ty, TTuple):
                xs = self.coerce(xs, TSeq(ty.key), st, node)
            r = ty.fresh("upd")
            k = z3.Const(fresh_name("uk"), ty.key.sort())
            if isinstance(xs.ty, TSeq) and xs.ty.elem.name == ty.key.name:
                i = z3.Int(fresh_name("ui"))
                n = xs.ty.len(xs.t)
                xi = z3.Select(xs.ty.arr(xs.t), i)
                occurs = z3.Exists([i], z3.And(0 <= i, i < n, xi == k))
                fwd = z3.Implies(z3.And(0 <= i, i < n), z3.Select(ty.mem(r.t), xi))
                try:
                    st.assume(z3.ForAll([i], fwd, patterns=[z3.Select(ty.mem(r.t), xi)]))
                except z3.Z3Exception:  # (the source is a conditional expression: a pattern may not contain an ite)
                    st.assume(z3.ForAll([i], fwd))
                empty_src = n == 0
            elif isinstance(xs.ty, TSet) and xs.ty.key.name == ty.key.name:
                occurs = z3.Select(xs.ty.mem(xs.t), k)
                empty_src = xs.ty.card(xs.t) == 0
            else:
                raise Unsupported(f"set.update with {xs.ty}", node)
            st.assume(z3.ForAll([k], z3.Select(ty.mem(r.t), k) == z3.Or(z3.Select(ty.mem(recv.t), k), occurs),
                                patterns=[z3.Select(ty.mem(r.t), k)]))
            st.assume(z3.And(ty.card(r.t) >= ty.card(recv.t),
                             (ty.card(r.t) == 0) == z3.And(ty.card(recv.t) == 0, empty_src)))
            r.mut = True
            self.assign(f.value, r, st, node, writeback=True)
            return VNone
        raise Unsupported(f"method .{name} on {recv.ty}", node)

    # ---- builtins --------------------------------------------------------------------------------------
    def b_len(self, node, st, hint=None):
        v = self.eval(node.args[0], st)
        if isinstance(v.ty, TTuple):
            return Val(TInt, z3.IntVal(len(v.t)))
        return Val(TInt, SYM.len(v))

    def _seq_arg(self, node, st, hint=None) -> Val:
        a = node.args[0]
        if isinstance(a, (ast.GeneratorExp, ast.ListComp)):
            return self.comp_to_seq(a, st, hint)
        v = self.eval(a, st)
        if isinstance(v.ty, TTuple):
            if hint is None:
                if not v.t:
                    raise Unsupported("empty heterogeneous tuple without sort", node)
                hint = TSeq(v.t[0].ty)
            return self.coerce(v, hint, st, node)
        if isinstance(v.ty, TSeq):
            return v
        if isinstance(v.ty, TDict):
            return self.dict_order(v, st)
        raise Unsupported(f"sequence conversion of {v.ty}", node)

    def b_set(self, node, st, hint=None):
        """set(seq): membership = occurrence in the sequence; the ghost cardinality is characterised as zero iff empty."""
        if len(node.args) != 1:
            raise Unsupported("set() form", node)
        v0 = self.eval(node.args[0], st)
        if isinstance(v0.ty, TSet):
            return v0
        if isinstance(v0.ty, TDict):  # set(d): the keys
            ty0 = TSet(v0.ty.key)
            return Val(ty0, ty0.mk(v0.ty.dom(v0.t), v0.ty.size(v0.t)))
        sq = self._as_seq(v0, st, node)
        ty = TSet(sq.ty.elem)
        r = ty.fresh("set")
        k = z3.Const(fresh_name("sk"), ty.key.sort())
        i = z3.Int(fresh_name("si"))
        n = sq.ty.len(sq.t)
        occurs = z3.Exists([i], z3.And(0 <= i, i < n, z3.Select(sq.ty.arr(sq.t), i) == k))
        st.assume(z3.ForAll([k], z3.Select(ty.mem(r.t), k) == occurs, patterns=[z3.Select(ty.mem(r.t), k)]))
        si = z3.Select(sq.ty.arr(sq.t), i)
        # (the forward direction is triggered only where membership of seq[i] is asked about: triggering it on every
        #  seq[i] together with the skolemised existential above is a matching loop)
        st.assume(z3.ForAll([i], z3.Implies(z3.And(0 <= i, i < n), z3.Select(ty.mem(r.t), si)),
                            patterns=[z3.Select(ty.mem(r.t), si)]))
        st.assume(z3.And(ty.card(r.t) >= 0, (ty.card(r.t) == 0) == (n == 0)))
        return r

    def b_tuple(self, node, st, hint=None):
        if not node.args:
            raise Unsupported("tuple()", node)
        v = self._seq_arg(node, st, hint)
        return Val(v.ty, v.t, False)

    def b_list(self, node, st, hint=None):
        if not node.args:
            raise Unsupported("list()", node)
        v = self._seq_arg(node, st, hint)
        return Val(v.ty, v.t, True)

    def b_isinstance(self, node, st, hint=None):
        v = self.eval(node.args[0], st)
        t = node.args[1]
        names = [t.id] if isinstance(t, ast.Name) else [e.id for e in t.elts] if isinstance(t, ast.Tuple) else None
        if isinstance(t, ast.BinOp):  # isinstance(x, A | B | ...)
            names, todo = [], [t]
            while todo:
                u = todo.pop()
                if isinstance(u, ast.BinOp) and isinstance(u.op, ast.BitOr):
                    todo += [u.right, u.left]
                elif isinstance(u, ast.Name):
                    names.append(u.id)
                else:
                    names = None
                    break
        if names is None:
            raise Unsupported("isinstance with computed type", node)
        res = []
        for nm in names:
            res.append(self._isinst(v, nm, node))
        return Val(TBool, z3.Or(*res) if len(res) > 1 else res[0])

    def _isinst(self, v: Val, nm: str, node):
        pyname = {"int": "int", "slice": "slice", "str": "str", "tuple": "tuple", "list": "list", "dict": "dict"}
        if isinstance(v.ty, TOpt):  # None is an instance of none of the modelled classes
            inner = self._isinst(Val(v.ty.elem, v.ty.val(v.t), v.mut), nm, node)
            return z3.And(z3.Not(v.ty.is_none(v.t)), inner)
        if isinstance(v.ty, TUnion):
            tags = [t for t, _ in v.ty.alts]
            # (an alternative may be declared a subclass of other class names: `supers` of the union sort)
            hit = [t for t in tags if t == nm or nm in getattr(v.ty, "supers", {}).get(t, ())]
            if hit:
                return z3.Or(*[v.ty.is_(t, v.t) for t in hit]) if len(hit) > 1 else v.ty.is_(hit[0], v.t)
            return z3.BoolVal(False)
        static = {"Int": "int", "Bool": "int", "Str": "str", "Slice": "slice"}.get(v.ty.name)
        if isinstance(v.ty, TSeq):
            static = "list" if v.mut else "tuple"
        if isinstance(v.ty, TTuple):
            static = "list" if v.mut else "tuple"
        if isinstance(v.ty, TDict):
            static = "dict"
        if isinstance(v.ty, TRec):  # a record models instances of the class it is named after (typed by the contract)
            if v.ty.name == nm:
                return z3.BoolVal(True)
            if nm in getattr(v.ty, "class_tests", {}):  # a Bool field of the view says whether the object is of that class
                return v.ty.get(v.t, v.ty.class_tests[nm]).t
            raise Unsupported(f"isinstance of a {v.ty.name} record against {nm}", node)
        if static is None:
            raise Unsupported(f"isinstance on {v.ty}", node)
        return z3.BoolVal(static == nm)

    def b_sum(self, node, st, hint=None):
        if len(node.args) != 1:
            raise Unsupported("sum with start", node)
        a = node.args[0]
        if isinstance(a, ast.GeneratorExp):
            # sum(x*y for x, y in zip(A, B)) -> dot(A, B, n) ; recognised structurally, otherwise unsupported
            n, ic, e, cond = self.comp_parts(a, st)
            if cond is None and e.ty is TInt:
                g = a.generators[0]
                if isinstance(a.elt, ast.BinOp) and isinstance(a.elt.op, ast.Mult) and isinstance(g.iter, ast.Call) \
                        and getattr(g.iter.func, "id", None) == "zip" and len(g.iter.args) == 2:
                    A = self.eval(g.iter.args[0], st)
                    B = self.eval(g.iter.args[1], st)
                    if isinstance(A.ty, TSeq) and isinstance(B.ty, TSeq) and A.ty.elem is TInt and B.ty.elem is TInt:
                        prod_ok = z3.ForAll([ic], z3.Implies(z3.And(0 <= ic, ic < n), e.t == z3.Select(A.ty.arr(A.t), ic)
                                                             * z3.Select(B.ty.arr(B.t), ic)))
                        self.oblige(st, "sum-generator-is-dot-product", prod_ok, node.lineno, "assert")
                        return Val(TInt, f_dot(A.ty.arr(A.t), B.ty.arr(B.t), z3.If(n > 0, n, 0)))
            raise Unsupported("sum over this generator", node)
        v = self.eval(a, st)
        if isinstance(v.ty, TSeq) and v.ty.elem is TBool:
            return Val(TInt, f_cnt(v.ty.arr(v.t), v.ty.len(v.t)))
        raise Unsupported(f"sum over {v.ty}", node)

    def _quant(self, node, st, is_all: bool):
        a = node.args[0]
        if isinstance(a, (ast.GeneratorExp, ast.ListComp)):
            n, ic, e, cond = self.comp_parts(a, st)
            body = self.truthy(e)
            j = z3.Int(fresh_name("qj"))
            rng = z3.And(0 <= j, j < n)
            if cond is not None:
                rng = z3.And(rng, z3.substitute(cond, (ic, j)))
            b = z3.substitute(body, (ic, j))
            return Val(TBool, z3.ForAll([j], z3.Implies(rng, b)) if is_all else z3.Exists([j], z3.And(rng, b)))
        v = self.eval(a, st)
        if isinstance(v.ty, TSeq):
            j = z3.Int(fresh_name("qj"))
            b = self.truthy(Val(v.ty.elem, z3.Select(v.ty.arr(v.t), j)))
            rng = z3.And(0 <= j, j < v.ty.len(v.t))
            return Val(TBool, z3.ForAll([j], z3.Implies(rng, b)) if is_all else z3.Exists([j], z3.And(rng, b)))
        raise Unsupported("any/all argument", node)

    def b_map(self, node, st, hint=None):
        """map(f, xs) with f a name: the sequence (f(x) for x in xs)."""
        if len(node.args) != 2 or node.keywords or not isinstance(node.args[0], ast.Name):
            raise Unsupported("map(...) form", node)
        var = fresh_name("$mx").replace("!", "_")
        gen = ast.GeneratorExp(
            elt=ast.Call(func=ast.Name(id=node.args[0].id, ctx=ast.Load()), args=[ast.Name(id=var, ctx=ast.Load())], keywords=[]),
            generators=[ast.comprehension(target=ast.Name(id=var, ctx=ast.Store()), iter=node.args[1], ifs=[], is_async=0)])
        ast.copy_location(gen, node)
        ast.fix_missing_locations(gen)
        return self.comp_to_seq(gen, st, hint)

    def b_next(self, node, st, hint=None):
        """next(e for x in xs if c): the element built from the first x that passes; StopIteration when none does."""
        if len(node.args) != 1 or node.keywords or not isinstance(node.args[0], ast.GeneratorExp):
            raise Unsupported("next(...) form", node)
        n, ic, e, cond = self.comp_parts(node.args[0], st)
        if isinstance(e.ty, TTuple):
            raise Unsupported("next over heterogeneous tuples", node)
        j = z3.Int(fresh_name("nj"))
        k = z3.Int(fresh_name("nk"))
        c_at = (lambda t: z3.substitute(cond, (ic, t))) if cond is not None else (lambda t: z3.BoolVal(True))
        none = z3.ForAll([j], z3.Implies(z3.And(0 <= j, j < n), z3.Not(c_at(j))))
        self.raise_if(st, none, "StopIteration", node.lineno)
        st.assume(z3.And(0 <= k, k < n, c_at(k), z3.ForAll([j], z3.Implies(z3.And(0 <= j, j < k), z3.Not(c_at(j))))))
        return Val(e.ty, z3.substitute(e.t, (ic, k)), e.mut)

    def b_all(self, node, st, hint=None):
        return self._quant(node, st, True)

    def b_any(self, node, st, hint=None):
        return self._quant(node, st, False)

    def b_range(self, node, st, hint=None):
        """range(...) as a value: the record of its three parameters (range(a) / range(a, b) / range(a, b, c) /
        range(*t) with t a triple of ints, e.g. slice.indices(n))."""
        if node.keywords:
            raise Unsupported("range with keywords", node)
        if len(node.args) == 1 and isinstance(node.args[0], ast.Starred):
            t = self.eval(node.args[0].value, st)
            if not (isinstance(t.ty, TTuple) and len(t.t) == 3):
                raise Unsupported("range(*x) of something else than a triple", node)
            xs = [self.as_int(x, st, node) for x in t.t]
        else:
            xs = [self.as_int(self.eval(a, st), st, node) for a in node.args]
            if len(xs) == 1:
                xs = [z3.IntVal(0), xs[0], z3.IntVal(1)]
            elif len(xs) == 2:
                xs = [xs[0], xs[1], z3.IntVal(1)]
            elif len(xs) != 3:
                raise Unsupported("range arity", node)
        self.raise_if(st, xs[2] == 0, "ValueError", node.lineno)
        return Val(TRange, TRange.mk(start=xs[0], stop=xs[1], step=xs[2]))

    def b_defaultdict(self, node, st, hint=None):
        """defaultdict(set | dict | list): an empty dict whose sort (from contract.locals_) says what a missing key yields."""
        if len(node.args) != 1 or node.keywords or not isinstance(node.args[0], ast.Name):
            raise Unsupported("defaultdict(...) form", node)
        if not isinstance(hint, TDict) or getattr(hint, "default", None) != node.args[0].id:
            raise Unsupported("defaultdict without a matching sort (TDict with .default) in contract.locals_", node)
        return Val(hint, hint.empty(), True)

    def b_slice(self, node, st, hint=None):
        if len(node.args) == 1 and isinstance(node.args[0], ast.Constant) and node.args[0].value is None:
            return Val(TSlice, TSlice.lit("slice(None)"))
        raise Unsupported("slice(...) other than slice(None)", node)

    def b_dict(self, node, st, hint=None):
        # dict(zip(K, V)) with pairwise distinct K (obligation) -> lookups resolve through a ghost position witness
        if len(node.args) == 1 and isinstance(node.args[0], ast.Call) and getattr(node.args[0].func, "id", "") == "zip" \
                and len(node.args[0].args) == 2:
            K = self._as_seq(self.eval(node.args[0].args[0], st), st, node)
            V = self._as_seq(self.eval(node.args[0].args[1], st), st, node)
            n = z3.If(K.ty.len(K.t) < V.ty.len(V.t), K.ty.len(K.t), V.ty.len(V.t))
            ty = TDict(K.ty.elem, V.ty.elem)
            d = ty.fresh("zipdict")
            pos = z3.Function(fresh_name("zpos"), K.ty.elem.sort(), z3.IntSort())
            i = z3.Int(fresh_name("zi"))
            k = z3.Const(fresh_name("zk"), K.ty.elem.sort())
            ki = z3.Select(K.ty.arr(K.t), i)
            # last occurrence wins: pos(k) is the LAST index with K[pos]=k
            st.assume(z3.ForAll([k], z3.Select(ty.dom(d.t), k) ==
                                z3.And(0 <= pos(k), pos(k) < n, z3.Select(K.ty.arr(K.t), pos(k)) == k),
                                patterns=[z3.Select(ty.dom(d.t), k)]))
            st.assume(z3.ForAll([i], z3.Implies(z3.And(0 <= i, i < n),
                                                z3.And(z3.Select(ty.dom(d.t), ki), pos(ki) >= i, pos(ki) < n,
                                                       z3.Select(K.ty.arr(K.t), pos(ki)) == ki)),
                                patterns=[ki]))
            st.assume(z3.ForAll([k], z3.Implies(z3.Select(ty.dom(d.t), k),
                                                z3.Select(ty.vals(d.t), k) == z3.Select(V.ty.arr(V.t), pos(k))),
                                patterns=[z3.Select(ty.vals(d.t), k)]))
            st.assume(ty.size(d.t) >= 0)
            d.mut = True
            return d
        if len(node.args) == 1 and not node.keywords:
            v = self.eval(node.args[0], st)
            if isinstance(v.ty, TDict):  # dict(d): a plain dict with the same items
                return Val(v.ty, v.t, True)
        raise Unsupported("dict(...) form", node)

    def _as_seq(self, v: Val, st, node) -> Val:
        if isinstance(v.ty, TSeq):
            return v
        if isinstance(v.ty, TTuple) and v.t:
            return self.coerce(v, TSeq(v.t[0].ty), st, node)
        raise Unsupported(f"not a sequence: {v.ty}", node)

    def e_DictComp(self, node, st):
        n, ic, (k, v), cond = self.comp_parts(node, st)
        if cond is not None:
            raise Unsupported("filtered dict comprehension", node)
        ty = TDict(k.ty, v.ty)
        d = ty.fresh("dcomp")
        pos = z3.Function(fresh_name("dpos"), k.ty.sort(), z3.IntSort())
        j = z3.Int(fresh_name("dj"))
        kk = z3.Const(fresh_name("dk"), k.ty.sort())
        kj = z3.substitute(k.t, (ic, j))
        st.assume(z3.ForAll([kk], z3.Select(ty.dom(d.t), kk) ==
                            z3.And(0 <= pos(kk), pos(kk) < n, z3.substitute(k.t, (ic, pos(kk))) == kk),
                            patterns=[z3.Select(ty.dom(d.t), kk)]))
        st.assume(z3.ForAll([j], z3.Implies(z3.And(0 <= j, j < n),
                                            z3.And(z3.Select(ty.dom(d.t), kj), pos(kj) >= j, pos(kj) < n,
                                                   z3.substitute(k.t, (ic, pos(kj))) == kj))))
        st.assume(z3.ForAll([kk], z3.Implies(z3.Select(ty.dom(d.t), kk),
                                             z3.Select(ty.vals(d.t), kk) == z3.substitute(v.t, (ic, pos(kk)))),
                            patterns=[z3.Select(ty.vals(d.t), kk)]))
        st.assume(ty.size(d.t) >= 0)
        d.mut = True
        self.last_dictcomp = SimpleNamespace(pos=pos, n=n)
        return d

    def b_min(self, node, st, hint=None):
        return self._minmax(node, st, True)

    def b_max(self, node, st, hint=None):
        return self._minmax(node, st, False)

    def _minmax(self, node, st, is_min):
        if len(node.args) == 2 and not node.keywords:
            a, b = self.eval(node.args[0], st), self.eval(node.args[1], st)
            if isinstance(a.ty, TOpt) and a.ty.elem in (TInt, TReal):
                a = self.coerce(a, a.ty.elem, st, node)
            if isinstance(b.ty, TOpt) and b.ty.elem in (TInt, TReal):
                b = self.coerce(b, b.ty.elem, st, node)
            a, b = self.unify(a, b, st, node)
            if a.ty in (TInt, TReal):
                c = a.t <= b.t if is_min else a.t >= b.t
                return Val(a.ty, z3.If(c, a.t, b.t))
        kws = {k.arg: k.value for k in node.keywords}
        if len(node.args) == 1 and set(kws) <= {"key", "default"} and isinstance(kws.get("key"), ast.Lambda) \
                and len(kws["key"].args.args) == 1 and not kws["key"].args.defaults:
            # max(xs, key=lambda x: e, default=d): the *first* element whose key is maximal (minimal for min)
            xs = self.eval(node.args[0], st)
            if not isinstance(xs.ty, TSeq):
                raise Unsupported("min/max of a non-sequence", node)
            tmp = fresh_name("$mm")
            st.env[tmp] = xs
            lam = kws["key"]
            gen = ast.GeneratorExp(elt=lam.body, generators=[ast.comprehension(
                target=ast.Name(id=lam.args.args[0].arg, ctx=ast.Store()), iter=ast.Name(id=tmp, ctx=ast.Load()),
                ifs=[], is_async=0)])
            ast.copy_location(gen, node)
            ast.fix_missing_locations(gen)
            keys = self.comp_to_seq(gen, st)
            del st.env[tmp]
            kty = keys.ty.elem
            if kty in (TInt, TReal):
                le = lambda a, b: a <= b  # noqa: E731
            elif kty is TStr:
                from .spec import str_le_fn
                le = str_le_fn()
            else:
                raise Unsupported(f"min/max with keys of type {kty}", node)
            better = (lambda a, b: le(b, a)) if is_min else le  # better(a, b): b is at least as good as a
            n = xs.ty.len(xs.t)
            if "default" in kws:
                dflt = self.eval(kws["default"], st)
            else:
                self.raise_if(st, n <= 0, "ValueError", node.lineno)
                dflt = None
            k = z3.Int(fresh_name("mk"))
            i = z3.Int(fresh_name("mi"))
            K = lambda t: z3.Select(keys.ty.arr(keys.t), t)  # noqa: E731
            st.assume(z3.Implies(n > 0, z3.And(
                0 <= k, k < n,
                z3.ForAll([i], z3.Implies(z3.And(0 <= i, i < n), better(K(i), K(k))), patterns=[K(i)]),
                z3.ForAll([i], z3.Implies(z3.And(0 <= i, i < k), z3.Not(better(K(k), K(i)))), patterns=[K(i)]))))
            best = Val(xs.ty.elem, z3.Select(xs.ty.arr(xs.t), k))
            if dflt is None:
                return best
            a, b = self.unify(best, dflt, st, node)
            return Val(a.ty, z3.If(n > 0, a.t, b.t))
        raise Unsupported("min/max form", node)


def _uninterpreted_apps(t) -> list:
    """All applications of uninterpreted symbols (constants and functions) in t, also under quantifiers."""
    out, seen, stack = [], set(), [t]
    while stack:
        x = stack.pop()
        i = x.get_id()
        if i in seen:
            continue
        seen.add(i)
        if z3.is_quantifier(x):
            stack.append(x.body())
            continue
        if z3.is_app(x):
            if x.decl().kind() == z3.Z3_OP_UNINTERPRETED:
                out.append(x)
            stack.extend(x.children())
    return out


def _const_names(t) -> set[str]:
    out: set[str] = set()
    seen = set()
    stack = [t]
    while stack:
        x = stack.pop()
        i = x.get_id()
        if i in seen:
            continue
        seen.add(i)
        if z3.is_quantifier(x):
            stack.append(x.body())
            continue
        if z3.is_app(x):
            if x.num_args() == 0 and x.decl().kind() == z3.Z3_OP_UNINTERPRETED:
                out.add(x.decl().name())
            elif x.decl().kind() == z3.Z3_OP_UNINTERPRETED:
                out.add(x.decl().name())
            stack.extend(x.children())
    return out


_QCACHE: dict = {}


def _has_quantifier(t) -> bool:
    k = t.get_id()
    hit = _QCACHE.get(k)
    if hit is not None and hit[0].eq(t):  # (ids are reused once a term is freed: the entry keeps its term alive)
        return hit[1]
    seen = set()
    stack = [t]
    res = False
    while stack:
        x = stack.pop()
        if z3.is_quantifier(x):
            res = True
            break
        i = x.get_id()
        if i in seen:
            continue
        seen.add(i)
        stack.extend(x.children())
    if len(_QCACHE) > 50000:
        _QCACHE.clear()
    _QCACHE[k] = (t, res)
    return res


def _select_subterms(t, j):
    """Subterms select(A, j) of t with A not mentioning j."""
    out, seen, todo = [], set(), [t]
    while todo:
        x = todo.pop()
        if x.get_id() in seen:
            continue
        seen.add(x.get_id())
        if z3.is_quantifier(x):
            todo.append(x.body())
            continue
        if not z3.is_app(x):
            continue
        if z3.is_select(x) and x.arg(1).eq(j) and not _mentions(x.arg(0), j) and not _has_bound_var(x):
            out.append(x)
        todo.extend(x.children())
    return out


def _contains_quantifier_term(t) -> bool:
    stack, seen = [t], set()
    while stack:
        x = stack.pop()
        if x.get_id() in seen:
            continue
        seen.add(x.get_id())
        if z3.is_quantifier(x):
            return True
        if z3.is_app(x):
            stack.extend(x.children())
    return False


def _has_bound_var(t) -> bool:
    stack, seen = [t], set()
    while stack:
        x = stack.pop()
        if x.get_id() in seen:
            continue
        seen.add(x.get_id())
        if z3.is_var(x):
            return True
        if z3.is_app(x):
            stack.extend(x.children())
    return False


def _mentions(t, c) -> bool:
    seen = set()
    stack = [t]
    while stack:
        x = stack.pop()
        if x.eq(c):
            return True
        if x.get_id() in seen:
            continue
        seen.add(x.get_id())
        stack.extend(x.children())
    return False


def _path_of(e) -> str | None:
    """'a' / 'a.b.c' for a name or a chain of attribute accesses on a name."""
    parts = []
    while isinstance(e, ast.Attribute):
        parts.append(e.attr)
        e = e.value
    if isinstance(e, ast.Name):
        return ".".join([e.id] + parts[::-1])
    return None


def _mutable_kind(v) -> bool:
    return isinstance(v, Val) and (isinstance(v.ty, (TRec, TDict, TSet)) or (isinstance(v.ty, TSeq) and bool(v.mut)))


def _mutated_receivers(stmts: list[ast.stmt]) -> set[str]:
    """Names that receive any method call or attribute store in a block (candidates for mutation through an alias)."""
    out: set[str] = set()
    for s in stmts:
        for n in ast.walk(s):
            if isinstance(n, ast.Call) and isinstance(n.func, ast.Attribute) and isinstance(n.func.value, ast.Name):
                out.add(n.func.value.id)
            if isinstance(n, ast.Attribute) and isinstance(n.ctx, ast.Store) and isinstance(n.value, ast.Name):
                out.add(n.value.id)
    return out


def _assigned(stmts: list[ast.stmt]) -> set[str]:
    """Names (and roots of attribute/subscript targets, and receivers of mutating methods) modified in a block."""
    out: set[str] = set()

    def root(e):
        while isinstance(e, (ast.Attribute, ast.Subscript)):
            e = e.value
        return e.id if isinstance(e, ast.Name) else None

    for s in stmts:
        for n in ast.walk(s):
            if isinstance(n, (ast.Assign, ast.AugAssign, ast.AnnAssign)):
                tg = n.targets if isinstance(n, ast.Assign) else [n.target]
                for t in tg:
                    for x in ast.walk(t):
                        if isinstance(x, ast.Name) and isinstance(x.ctx, ast.Store):
                            out.add(x.id)
                    r = root(t)
                    if r:
                        out.add(r)
            elif isinstance(n, ast.For):
                out |= _target_names(n.target)
            elif isinstance(n, ast.Delete):
                for t in n.targets:
                    r = root(t)
                    if r:
                        out.add(r)
            elif isinstance(n, ast.Call) and isinstance(n.func, ast.Attribute) and \
                    n.func.attr in ("append", "pop", "remove", "extend", "clear", "update", "add", "discard",
                                    "setdefault", "insert"):
                r = root(n.func.value)
                if r:
                    out.add(r)
            elif isinstance(n, ast.NamedExpr):
                out.add(n.target.id)
    return out


def _target_names(t: ast.expr) -> set[str]:
    return {x.id for x in ast.walk(t) if isinstance(x, ast.Name)}
