"""Value model of the pyvc proof rung: Python values <-> z3 terms.

Every symbolic value is a `Val(ty, t)`: a type descriptor and one z3 term.  Boogie-style encoding
(see DESIGN 2.1.3): sequences are a datatype (len: Int, at: Array Int T), dicts are (dom, val, size),
sets are Array K Bool, unions/options/records are z3 datatypes, names are an uninterpreted sort.
Each type knows how to (a) make a fresh constant, (b) lift a concrete Python value to a literal term,
(c) read a concrete Python value back out of a z3 model (used for replaying counter-models).
"""
from __future__ import annotations

import itertools
from dataclasses import dataclass, field
from typing import Any

import z3

_counter = itertools.count()


def fresh_name(base: str) -> str:
    return f"{base}!{next(_counter)}"


def reset_names(base: int = 1_000_000) -> None:
    """Restart the numbering of fresh symbols (called at the start of each function's proof): the VCs of a function
    then carry the same names whatever was processed before in this process, so the solver's behaviour - which depends
    on symbol order - is reproducible.  Import-time symbols keep their small numbers, so nothing collides."""
    global _counter
    _counter = itertools.count(base)


class Ty:
    name: str = "?"
    mutable = False

    def sort(self) -> z3.SortRef:
        raise NotImplementedError

    def fresh(self, base: str) -> "Val":
        return Val(self, z3.Const(fresh_name(base), self.sort()))

    def lit(self, py: Any) -> z3.ExprRef:
        raise NotImplementedError(f"lit for {self.name}")

    def read(self, model: z3.ModelRef, t: z3.ExprRef) -> Any:
        raise NotImplementedError(f"read for {self.name}")

    def wf(self, t: z3.ExprRef) -> list[z3.BoolRef]:
        """Type invariant of a term of this type (e.g. len >= 0)."""
        return []

    def __repr__(self) -> str:
        return self.name


@dataclass
class Val:
    ty: Ty
    t: Any  # z3 term; for TTuple a python list of Val
    mut: bool = False  # python-level mutability (list vs tuple) -- used for alias hazards only

    # conveniences for contracts (symbolic interpretation)
    def __getitem__(self, i):
        from .spec import SYM
        return SYM.at(self, i)

    def __getattr__(self, name):
        if name.startswith("__"):
            raise AttributeError(name)
        ty = object.__getattribute__(self, "ty")
        if isinstance(ty, TRec) and name in ty.fields:
            return unwrap(ty.get(object.__getattribute__(self, "t"), name))
        raise AttributeError(name)


def unwrap(v: "Val"):
    """Scalars are exposed to contracts as raw z3 terms so that + < == work."""
    if isinstance(v, Val) and isinstance(v.ty, (_TInt, _TBool, _TReal)):
        return v.t
    return v


def wrap(x, hint: Ty | None = None) -> Val:
    if isinstance(x, Val):
        return x
    if isinstance(x, bool):
        return Val(TBool, z3.BoolVal(x))
    if isinstance(x, int):
        return Val(TInt, z3.IntVal(x))
    if isinstance(x, float):
        return Val(TReal, z3.RealVal(x))
    if z3.is_bool(x):
        return Val(TBool, x)
    if z3.is_int(x):
        return Val(TInt, x)
    if z3.is_real(x):
        return Val(TReal, x)
    if hint is not None:
        return Val(hint, x)
    raise TypeError(f"cannot wrap {x!r}")


class _TInt(Ty):
    name = "Int"

    def sort(self):
        return z3.IntSort()

    def lit(self, py):
        return z3.IntVal(int(py))

    def read(self, model, t):
        v = model.eval(t, model_completion=True)
        return v.as_long()


class _TBool(Ty):
    name = "Bool"

    def sort(self):
        return z3.BoolSort()

    def lit(self, py):
        return z3.BoolVal(bool(py))

    def read(self, model, t):
        return z3.is_true(model.eval(t, model_completion=True))


class _TReal(Ty):
    name = "Real"

    def sort(self):
        return z3.RealSort()

    def lit(self, py):
        from fractions import Fraction
        f = Fraction(py).limit_denominator(10**9)
        return z3.RealVal(f"{f.numerator}/{f.denominator}")

    def read(self, model, t):
        v = model.eval(t, model_completion=True)
        if z3.is_rational_value(v):
            return v.numerator_as_long() / v.denominator_as_long()
        return float(v.approx(10).as_fraction())


TInt, TBool, TReal = _TInt(), _TBool(), _TReal()

_usorts: dict[str, z3.SortRef] = {}
_ulits: dict[tuple[str, Any], z3.ExprRef] = {}


class TOpaque(Ty):
    """Uninterpreted sort: only equality is modelled (names, cache keys, user values)."""

    def __init__(self, name: str, prefix: str | None = None):
        self.name = name
        self.prefix = prefix or name.lower()
        if name not in _usorts:
            _usorts[name] = z3.DeclareSort(name)

    def sort(self):
        return _usorts[self.name]

    def lit(self, py):
        k = (self.name, py)
        if k not in _ulits:
            _ulits[k] = z3.Const(f"{self.name}'{py!r}", self.sort())
        return _ulits[k]

    @staticmethod
    def distinct_axioms() -> list[z3.BoolRef]:
        by: dict[str, list] = {}
        for (s, _), c in _ulits.items():
            by.setdefault(s, []).append(c)
        return [z3.Distinct(*cs) for cs in by.values() if len(cs) > 1]

    def read(self, model, t):
        v = model.eval(t, model_completion=True)
        for (s, py), c in _ulits.items():
            if s == self.name and model.eval(c, model_completion=True).eq(v):
                return py
        txt = str(v)
        idx = txt.rsplit("!", 1)[-1]
        return f"{self.prefix}{idx}"


TStr = TOpaque("Str", "s")
TObj = TOpaque("Obj", "o")
TSlice = TOpaque("Slice", "slice")

_dts: dict[str, Any] = {}


class TSeq(Ty):
    def __init__(self, elem: Ty):
        self.elem = elem
        self.name = f"Seq<{elem.name}>"
        if self.name not in _dts:
            d = z3.Datatype(self.name)
            d.declare(f"mk{self.name}", ("len", z3.IntSort()), ("at", z3.ArraySort(z3.IntSort(), elem.sort())))
            _dts[self.name] = d.create()
        self.dt = _dts[self.name]

    def sort(self):
        return self.dt

    def mk(self, n, arr):
        return self.dt.constructor(0)(n, arr)

    def len(self, t):
        return self.dt.accessor(0, 0)(t)

    def arr(self, t):
        return self.dt.accessor(0, 1)(t)

    def wf(self, t):
        out = [self.len(t) >= 0]
        if self.elem.wf(z3.Const("x", self.elem.sort())):
            i = z3.Int(fresh_name("wfi"))
            e = z3.Select(self.arr(t), i)
            out.append(z3.ForAll([i], z3.Implies(z3.And(0 <= i, i < self.len(t)), z3.And(*self.elem.wf(e))),
                                 patterns=[e]))
        return out

    def lit(self, py):
        arr = z3.K(z3.IntSort(), self.elem.lit(_default(self.elem)))
        for i, x in enumerate(py):
            arr = z3.Store(arr, i, self.elem.lit(x))
        return self.mk(z3.IntVal(len(py)), arr)

    def read(self, model, t):
        n = model.eval(self.len(t), model_completion=True).as_long()
        if n < 0 or n > 64:
            raise ModelTooLarge(f"sequence length {n}")
        return tuple(self.elem.read(model, z3.Select(self.arr(t), i)) for i in range(n))


class ModelTooLarge(Exception):
    pass


def _default(ty: Ty):
    if isinstance(ty, _TInt):
        return 0
    if isinstance(ty, _TBool):
        return False
    if isinstance(ty, _TReal):
        return 0.0
    if isinstance(ty, TOpaque):
        return "_dflt"
    if isinstance(ty, TSeq):
        return ()
    if isinstance(ty, TOpt):
        return None
    if isinstance(ty, TUnion):
        a = ty.alts[0]
        return Tagged(a[0], _default(a[1]) if a[1] is not None else None)
    if isinstance(ty, TRec):
        return {k: _default(v) for k, v in ty.fields.items()}
    if isinstance(ty, TDict):
        return {}
    if isinstance(ty, TSet):
        return set()
    raise NotImplementedError(ty)


class TOpt(Ty):
    def __init__(self, elem: Ty):
        self.elem = elem
        self.name = f"Opt<{elem.name}>"
        if self.name not in _dts:
            d = z3.Datatype(self.name)
            d.declare(f"none{self.name}")
            d.declare(f"some{self.name}", ("val", elem.sort()))
            _dts[self.name] = d.create()
        self.dt = _dts[self.name]

    def sort(self):
        return self.dt

    def none(self):
        return self.dt.constructor(0)()

    def some(self, t):
        return self.dt.constructor(1)(t)

    def is_none(self, t):
        return self.dt.recognizer(0)(t)

    def val(self, t):
        return self.dt.accessor(1, 0)(t)

    def wf(self, t):
        w = self.elem.wf(self.val(t))
        return [z3.Implies(z3.Not(self.is_none(t)), z3.And(*w))] if w else []

    def lit(self, py):
        return self.none() if py is None else self.some(self.elem.lit(py))

    def read(self, model, t):
        if z3.is_true(model.eval(self.is_none(t), model_completion=True)):
            return None
        return self.elem.read(model, self.val(t))


@dataclass(frozen=True)
class Tagged:
    tag: str
    value: Any = None


class TUnion(Ty):
    """Tagged union; alts = [(tag, Ty|None)].  Python side: mapping given by to_py/from_py hooks."""

    def __init__(self, name: str, alts: list[tuple[str, Ty | None]], to_py=None, from_py=None):
        self.name = name
        self.alts = alts
        self.to_py = to_py or (lambda tagged: tagged)
        self.from_py = from_py or (lambda py: py)
        if name not in _dts:
            d = z3.Datatype(name)
            for tag, ty in alts:
                if ty is None:
                    d.declare(f"{name}.{tag}")
                else:
                    d.declare(f"{name}.{tag}", (f"{name}.{tag}.v", ty.sort()))
            _dts[name] = d.create()
        self.dt = _dts[name]

    def sort(self):
        return self.dt

    def idx(self, tag):
        return [a[0] for a in self.alts].index(tag)

    def mk(self, tag, t=None):
        c = self.dt.constructor(self.idx(tag))
        return c() if t is None else c(t)

    def is_(self, tag, t):
        return self.dt.recognizer(self.idx(tag))(t)

    def get(self, tag, t):
        return self.dt.accessor(self.idx(tag), 0)(t)

    def alt_ty(self, tag):
        return self.alts[self.idx(tag)][1]

    def wf(self, t):
        out = []
        for tag, ty in self.alts:
            if ty is not None:
                w = ty.wf(self.get(tag, t))
                if w:
                    out.append(z3.Implies(self.is_(tag, t), z3.And(*w)))
        return out

    def lit(self, py):
        tg = self.from_py(py)
        ty = self.alt_ty(tg.tag)
        return self.mk(tg.tag, None if ty is None else ty.lit(tg.value))

    def read(self, model, t):
        for tag, ty in self.alts:
            if z3.is_true(model.eval(self.is_(tag, t), model_completion=True)):
                return self.to_py(Tagged(tag, None if ty is None else ty.read(model, self.get(tag, t))))
        raise AssertionError("no constructor")


class TRec(Ty):
    def __init__(self, name: str, fields: dict[str, Ty], to_py=None, from_py=None):
        self.name = name
        self.fields = dict(fields)
        self.to_py = to_py or (lambda d: d)
        self.from_py = from_py or (lambda o: o if isinstance(o, dict) else {k: getattr(o, k) for k in fields})
        if name not in _dts:
            d = z3.Datatype(name)
            d.declare(f"mk{name}", *[(f"{name}.{k}", v.sort()) for k, v in fields.items()])
            _dts[name] = d.create()
        self.dt = _dts[name]

    def sort(self):
        return self.dt

    def mk(self, **kw):
        return self.dt.constructor(0)(*[kw[k] for k in self.fields])

    def get(self, t, f) -> Val:
        i = list(self.fields).index(f)
        return Val(self.fields[f], self.dt.accessor(0, i)(t))

    def set(self, t, f, new):
        args = [new if k == f else self.dt.accessor(0, i)(t) for i, k in enumerate(self.fields)]
        return self.dt.constructor(0)(*args)

    def wf(self, t):
        out = []
        for k, ty in self.fields.items():
            out += ty.wf(self.get(t, k).t)
        return out

    def lit(self, py):
        d = self.from_py(py)
        return self.mk(**{k: ty.lit(d[k]) for k, ty in self.fields.items()})

    def read(self, model, t):
        return self.to_py({k: ty.read(model, self.get(t, k).t) for k, ty in self.fields.items()})


class TSet(Ty):
    """Set as characteristic array plus a ghost cardinality (no cardinality reasoning is done by the solver;
    operations update `size` explicitly)."""

    def __init__(self, key: Ty):
        self.key = key
        self.name = f"Set<{key.name}>"
        if self.name not in _dts:
            d = z3.Datatype(self.name)
            d.declare(f"mk{self.name}", ("mem", z3.ArraySort(key.sort(), z3.BoolSort())), ("card", z3.IntSort()))
            _dts[self.name] = d.create()
        self.dt = _dts[self.name]

    def sort(self):
        return self.dt

    def mk(self, mem, card):
        return self.dt.constructor(0)(mem, card)

    def mem(self, t):
        return self.dt.accessor(0, 0)(t)

    def card(self, t):
        return self.dt.accessor(0, 1)(t)

    def wf(self, t):
        return [self.card(t) >= 0]

    def lit(self, py):
        arr = z3.K(self.key.sort(), z3.BoolVal(False))
        for x in py:
            arr = z3.Store(arr, self.key.lit(x), z3.BoolVal(True))
        return self.mk(arr, z3.IntVal(len(set(py))))

    def read(self, model, t):
        raise NotImplementedError("sets are read back through their witnesses")


class TDict(Ty):
    """dict: (dom, val, size) -- `size` is ghost state maintained by every operation (DESIGN 2.1.3)."""

    def __init__(self, key: Ty, val: Ty):
        self.key, self.val = key, val
        self.name = f"Dict<{key.name},{val.name}>"
        if self.name not in _dts:
            d = z3.Datatype(self.name)
            d.declare(f"mk{self.name}", ("dom", z3.ArraySort(key.sort(), z3.BoolSort())),
                      ("val", z3.ArraySort(key.sort(), val.sort())), ("size", z3.IntSort()))
            _dts[self.name] = d.create()
        self.dt = _dts[self.name]
    mutable = True

    def sort(self):
        return self.dt

    def mk(self, dom, val, size):
        return self.dt.constructor(0)(dom, val, size)

    def dom(self, t):
        return self.dt.accessor(0, 0)(t)

    def vals(self, t):
        return self.dt.accessor(0, 1)(t)

    def size(self, t):
        return self.dt.accessor(0, 2)(t)

    def wf(self, t):
        # the ghost size is the number of keys: in particular no key is present when it is 0
        k = z3.Const(fresh_name("wk"), self.key.sort())
        out = [self.size(t) >= 0,
               z3.ForAll([k], z3.Implies(z3.Select(self.dom(t), k), self.size(t) > 0), patterns=[z3.Select(self.dom(t), k)])]
        # the values of present keys are well-formed values of their type (e.g. sequences have a length >= 0)
        vk = z3.Select(self.vals(t), k)
        vw = [w for w in self.val.wf(vk) if not z3.is_true(w)]
        if vw:
            out.append(z3.ForAll([k], z3.Implies(z3.Select(self.dom(t), k), z3.And(*vw)), patterns=[vk]))
        return out

    def empty(self):
        return self.mk(z3.K(self.key.sort(), z3.BoolVal(False)),
                       z3.K(self.key.sort(), self.val.lit(_default(self.val))), z3.IntVal(0))

    def lit(self, py):
        dom = z3.K(self.key.sort(), z3.BoolVal(False))
        val = z3.K(self.key.sort(), self.val.lit(_default(self.val)))
        for k, v in py.items():
            dom = z3.Store(dom, self.key.lit(k), z3.BoolVal(True))
            val = z3.Store(val, self.key.lit(k), self.val.lit(v))
        return self.mk(dom, val, z3.IntVal(len(py)))

    def read(self, model, t):
        raise NotImplementedError("dicts are read back through their witnesses")


class TTuple(Ty):
    """Fixed-arity heterogeneous tuple kept at the meta level (Val.t is a python list of Val)."""

    def __init__(self, items: list[Ty]):
        self.items = items
        self.name = "(" + ",".join(i.name for i in items) + ")"

    def fresh(self, base):
        return Val(self, [ty.fresh(f"{base}.{i}") for i, ty in enumerate(self.items)])

    def lit(self, py):
        return [Val(ty, ty.lit(x)) for ty, x in zip(self.items, py)]

    def read(self, model, t):
        return tuple(v.ty.read(model, v.t) for v in t)

    def wf(self, t):
        out = []
        for v in t:
            out += v.ty.wf(v.t)
        return out


class TNoneT(Ty):
    name = "None"

    def sort(self):
        return z3.BoolSort()

    def fresh(self, base):
        return VNone

    def lit(self, py):
        return z3.BoolVal(True)

    def read(self, model, t):
        return None


TNone = TNoneT()
# range(start, stop, step) as a value (only its three parameters are modelled; iteration over one is eval_iter's job)
TRange = TRec("range", {"start": TInt, "stop": TInt, "step": TInt},
              to_py=lambda d: range(d["start"], d["stop"], d["step"] or 1),
              from_py=lambda r: {"start": r.start, "stop": r.stop, "step": r.step})


def slice_zero_step_fn():
    """slice.indices raises ValueError for a slice whose step is 0 (an uninterpreted predicate of the slice)."""
    return z3.Function("slice.step-is-zero", TSlice.sort(), z3.BoolSort())


def slice_indices_fn(i: int):
    """The i-th component of slice.indices(n) as an uninterpreted function of (slice, n)."""
    return z3.Function(f"slice.indices#{i}", TSlice.sort(), z3.IntSort(), z3.IntSort())
VNone = Val(TNone, z3.BoolVal(True))


def lit_val(ty: Ty, py) -> Val:
    return Val(ty, ty.lit(py))
