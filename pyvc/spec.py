"""Spec vocabulary with two interpretations (DESIGN 2.1.5).

Contracts are Python functions written against an object `S`.  `SYM` interprets them as z3 terms (proof rung),
`CONC` as Python values on the real objects (bounded rung, replay).  Spec functions (`cnt`, `prod`, ...) are
uninterpreted in z3, with triggered unfolding axioms (`axioms()`), and have executable definitions in CONC; the two
are cross-checked by `selfcheck()`.
"""
from __future__ import annotations

import math
from typing import Any, Callable

import z3

from .types import (TBool, TDict, TInt, TOpaque, TOpt, TRec, TSeq, TSet, TStr, TUnion, Ty, Val, fresh_name, unwrap,
                    wrap)

IntArr = z3.ArraySort(z3.IntSort(), z3.IntSort())
BoolArr = z3.ArraySort(z3.IntSort(), z3.BoolSort())

# ---- spec functions (uninterpreted + axioms) -------------------------------------------------------------
f_cnt = z3.Function("cnt", BoolArr, z3.IntSort(), z3.IntSort())  # number of True in m[0:j]
f_prod = z3.Function("prod", IntArr, z3.IntSort(), z3.IntSort(), z3.IntSort())  # product s[a:b]
f_dot = z3.Function("dot", IntArr, IntArr, z3.IntSort(), z3.IntSort())  # sum_{i<n} a[i]*b[i]


def str_le_fn():
    """The order of strings (what `<=` / max / min / sorted use): an uninterpreted total order."""
    return z3.Function("str_le", TStr.sort(), TStr.sort(), z3.BoolSort())


def order_axioms() -> list[z3.BoolRef]:
    le = str_le_fn()
    x, y, w = z3.Consts("so_x so_y so_w", TStr.sort())
    return [z3.ForAll([x], le(x, x), patterns=[le(x, x)]),
            z3.ForAll([x, y], z3.Implies(z3.And(le(x, y), le(y, x)), x == y), patterns=[z3.MultiPattern(le(x, y), le(y, x))]),
            z3.ForAll([x, y, w], z3.Implies(z3.And(le(x, y), le(y, w)), le(x, w)), patterns=[z3.MultiPattern(le(x, y), le(y, w))]),
            z3.ForAll([x, y], z3.Or(le(x, y), le(y, x)), patterns=[le(x, y)])]


def axioms() -> list[z3.BoolRef]:
    m = z3.Const("m", BoolArr)
    s = z3.Const("s", IntArr)
    s2 = z3.Const("s2", IntArr)
    j, a, b = z3.Ints("j a b")
    ax = []
    # cnt: definition by unfolding at the upper end
    ax.append(z3.ForAll([m], f_cnt(m, 0) == 0, patterns=[f_cnt(m, 0)]))
    ax.append(z3.ForAll([m, j], z3.Implies(j >= 0, f_cnt(m, j + 1) == f_cnt(m, j) + z3.If(z3.Select(m, j), 1, 0)),
                        patterns=[f_cnt(m, j + 1)]))
    # (the downward unfolding cnt(m,j) = cnt(m,j-1) + ... for every count term is a matching loop: each instance makes
    #  a new count term.  It is only instantiated where the predecessor's count is already a term.)
    ax.append(z3.ForAll([m, j], z3.Implies(j > 0, f_cnt(m, j) == f_cnt(m, j - 1) + z3.If(z3.Select(m, j - 1), 1, 0)),
                        patterns=[z3.MultiPattern(f_cnt(m, j), f_cnt(m, j - 1))]))
    # prod: prod(s,a,a)=1 ; a<b => prod(s,a,b)=prod(s,a,b-1)*s[b-1]
    ax.append(z3.ForAll([s, a, b], z3.Implies(a >= b, f_prod(s, a, b) == 1), patterns=[f_prod(s, a, b)]))
    ax.append(z3.ForAll([s, a, b], z3.Implies(a < b, f_prod(s, a, b) == f_prod(s, a, b - 1) * z3.Select(s, b - 1)),
                        patterns=[f_prod(s, a, b)]))
    # dot
    ax.append(z3.ForAll([s, s2], f_dot(s, s2, 0) == 0, patterns=[f_dot(s, s2, 0)]))
    ax.append(z3.ForAll([s, s2, j], z3.Implies(j > 0, f_dot(s, s2, j) == f_dot(s, s2, j - 1)
                                               + z3.Select(s, j - 1) * z3.Select(s2, j - 1)),
                        patterns=[f_dot(s, s2, j)]))
    return ax + order_axioms()


_OPAQUE: dict = {}


def opaque_axioms() -> list:
    """Definitional axioms of the named spec predicates registered so far (see _Sym.opaque)."""
    return [ax for _, ax in _OPAQUE.values()]


def lemma_axioms() -> list[z3.BoolRef]:
    """Lemmas about the spec functions.  Each is proved separately by induction in lemmas.py on every run;
    here they are made available to the VCs as hypotheses."""
    m = z3.Const("m", BoolArr)
    s = z3.Const("s", IntArr)
    j, a, b = z3.Ints("j a b")
    out = []
    # L1: 0 <= cnt(m,j) <= j  for j>=0
    out.append(z3.ForAll([m, j], z3.Implies(j >= 0, z3.And(0 <= f_cnt(m, j), f_cnt(m, j) <= j)),
                         patterns=[f_cnt(m, j)]))
    # L1b: monotone: 0<=a<=b => cnt(a) <= cnt(b) and a-cnt(a) <= b-cnt(b)
    out.append(z3.ForAll([m, a, b], z3.Implies(z3.And(0 <= a, a <= b),
                                               z3.And(f_cnt(m, a) <= f_cnt(m, b),
                                                      a - f_cnt(m, a) <= b - f_cnt(m, b))),
                         patterns=[z3.MultiPattern(f_cnt(m, a), f_cnt(m, b))]))
    # L1c: strict step: 0<=a<b, m[a] => cnt(a) < cnt(b) ;  not m[a] => a-cnt(a) < b-cnt(b)
    out.append(z3.ForAll([m, a, b], z3.Implies(z3.And(0 <= a, a < b),
                                               z3.And(z3.Implies(z3.Select(m, a), f_cnt(m, a) < f_cnt(m, b)),
                                                      z3.Implies(z3.Not(z3.Select(m, a)),
                                                                 a - f_cnt(m, a) < b - f_cnt(m, b)))),
                         patterns=[z3.MultiPattern(f_cnt(m, a), f_cnt(m, b))]))
    # P2: positivity of products of positive factors
    i = z3.Int("i")
    out.append(z3.ForAll([s, a, b], z3.Implies(z3.ForAll([i], z3.Implies(z3.And(a <= i, i < b), z3.Select(s, i) > 0)),
                                               f_prod(s, a, b) > 0), patterns=[f_prod(s, a, b)]))
    # P1: prod split at the lower end: a<b => prod(s,a,b) = s[a]*prod(s,a+1,b)
    out.append(z3.ForAll([s, a, b], z3.Implies(a < b, f_prod(s, a, b) == z3.Select(s, a) * f_prod(s, a + 1, b)),
                         patterns=[f_prod(s, a, b)]))
    return out


def l9_instance(A, B):
    """L9 (congruence of cnt, proved by induction in lemmas.py) for two given arrays: if they agree on [0,k) they have
    the same count there.  Triggered on count terms of B only (B: the spec array a contract talks about; A: the filter
    array the engine made for a comprehension) - as a global lemma it would be instantiated for every pair of arrays."""
    i, k = z3.Int("l9_i"), z3.Int("l9_k")
    return z3.ForAll([k], z3.Implies(
        z3.And(k >= 0, z3.ForAll([i], z3.Implies(z3.And(0 <= i, i < k), z3.Select(A, i) == z3.Select(B, i)))),
        f_cnt(A, k) == f_cnt(B, k)), patterns=[f_cnt(B, k)])


class _ArrView:
    """A raw Bool array usable where contracts expect a boolean sequence (indexing, cnt)."""

    def __init__(self, arr):
        self.arr = arr
        self.t = None

    def __getitem__(self, i):
        return z3.Select(self.arr, i)

    class _Ty:
        def __init__(self, arr):
            self._a = arr

        def arr(self, t):
            return self._a

    @property
    def ty(self):
        return _ArrView._Ty(self.arr)


def _has_ite(t) -> bool:
    seen, stack = set(), [t]
    while stack:
        x = stack.pop()
        if x.get_id() in seen:
            continue
        seen.add(x.get_id())
        if z3.is_app(x) and x.decl().kind() == z3.Z3_OP_ITE:
            return True
        stack.extend(x.children())
    return False


def _pats(p):
    ps = p if isinstance(p, list) else [p]
    return [] if any(_has_ite(x) for x in ps) else ps


# ---- interpretations ------------------------------------------------------------------------------------
class _Sym:
    """Symbolic interpretation: values are `Val`s or raw z3 scalars."""
    symbolic = True

    def len(self, x):
        x = wrap(x)
        if isinstance(x.ty, TSeq):
            return x.ty.len(x.t)
        if isinstance(x.ty, TDict):
            return x.ty.size(x.t)
        if isinstance(x.ty, TSet):
            return x.ty.card(x.t)
        raise TypeError(f"len of {x.ty}")

    def at(self, x, i):
        x = wrap(x)
        if isinstance(x.ty, TSeq):
            return unwrap(Val(x.ty.elem, z3.Select(x.ty.arr(x.t), i)))
        if isinstance(x.ty, TDict):
            k = wrap(i, x.ty.key)
            return unwrap(Val(x.ty.val, z3.Select(x.ty.vals(x.t), k.t)))
        raise TypeError(f"at of {x.ty}")

    def arr(self, x):
        return x.ty.arr(x.t)

    def has(self, d, k):
        d = wrap(d)
        if isinstance(d.ty, TDict):
            return z3.Select(d.ty.dom(d.t), wrap(k, d.ty.key).t)
        if isinstance(d.ty, TSet):
            return z3.Select(d.ty.mem(d.t), wrap(k, d.ty.key).t)
        raise TypeError(f"has of {d.ty}")

    def and_(self, *xs):
        xs = [x() if callable(x) else x for x in xs]
        xs = [x for x in xs if x is not True]
        return z3.And(*xs) if xs else z3.BoolVal(True)

    def or_(self, *xs):
        xs = [x() if callable(x) else x for x in xs]
        return z3.Or(*xs) if xs else z3.BoolVal(False)

    def not_(self, x):
        return z3.Not(x) if not isinstance(x, bool) else (not x)

    def implies(self, a, b):
        return z3.Implies(a, b() if callable(b) else b)

    def iff(self, a, b):
        return a == b

    def ite(self, c, a, b):
        a = a() if callable(a) else a
        b = b() if callable(b) else b
        a, b = wrap(a), wrap(b)
        return unwrap(Val(a.ty, z3.If(c, a.t, b.t)))

    def exists(self, lo, hi, fn: Callable):
        i = z3.Int(fresh_name("e"))
        body = fn(i)
        if isinstance(body, (list, tuple)):
            body = z3.And(*body)
        return z3.Exists([i], z3.And(lo <= i, i < hi, body))

    def eq(self, a, b):
        a = wrap(a)
        b = wrap(b, a.ty)
        return a.t == b.t

    def true(self):
        return z3.BoolVal(True)

    def forall(self, lo, hi, fn: Callable, pattern=None):
        i = z3.Int(fresh_name("q"))
        body = fn(i)
        if isinstance(body, (list, tuple)):
            body = z3.And(*body)
        if isinstance(body, dict):
            body = z3.And(*body.values())
        kw = {}
        if pattern is not None:
            ps = _pats(pattern(i))  # (z3 rejects patterns that contain an `ite`)
            if ps:
                kw["patterns"] = ps
        try:
            return z3.ForAll([i], z3.Implies(z3.And(lo <= i, i < hi), body), **kw)
        except z3.Z3Exception:  # e.g. the pattern contains an `ite`: fall back to inferred triggers
            return z3.ForAll([i], z3.Implies(z3.And(lo <= i, i < hi), body))

    def slice_none(self):
        from .types import TSlice
        return unwrap(Val(TSlice, TSlice.lit("slice(None)")))

    def forall_key(self, ty: Ty, fn: Callable, pattern=None, domain=()):
        k = z3.Const(fresh_name("qk"), ty.sort())
        body = fn(unwrap(Val(ty, k)))
        if isinstance(body, (list, tuple)):
            body = z3.And(*body)
        kw = {}
        if pattern is not None:
            ps = _pats(pattern(unwrap(Val(ty, k))))
            if ps:
                kw["patterns"] = ps
        try:
            return z3.ForAll([k], body, **kw)
        except z3.Z3Exception:
            return z3.ForAll([k], body)

    def in_set(self, st, k):
        st, k = wrap(st), wrap(k)
        return z3.Select(st.ty.mem(st.t), k.t)

    def exists_in_set(self, st, fn: Callable):
        st = wrap(st)
        k = z3.Const(fresh_name("sk"), st.ty.key.sort())
        return z3.Exists([k], z3.And(z3.Select(st.ty.mem(st.t), k), fn(unwrap(Val(st.ty.key, k)))))

    def contains(self, seq, x):
        seq, x = wrap(seq), wrap(x)
        i = z3.Int(fresh_name("ci"))
        return z3.Exists([i], z3.And(0 <= i, i < seq.ty.len(seq.t), z3.Select(seq.ty.arr(seq.t), i) == x.t))

    def exists_in_dict(self, d, fn: Callable):
        d = wrap(d)
        k = z3.Const(fresh_name("ek"), d.ty.key.sort())
        body = fn(unwrap(Val(d.ty.key, k)))
        return z3.Exists([k], z3.And(z3.Select(d.ty.dom(d.t), k), body))

    def forall_in_dict(self, d, fn: Callable):
        d = wrap(d)
        k = z3.Const(fresh_name("fk"), d.ty.key.sort())
        body = fn(unwrap(Val(d.ty.key, k)))
        return z3.ForAll([k], z3.Implies(z3.Select(d.ty.dom(d.t), k), body))

    # options / unions
    def is_none(self, x):
        x = wrap(x)
        if isinstance(x.ty, TOpt):
            return x.ty.is_none(x.t)
        from .types import TNoneT, TObj
        if x.ty is TObj:  # an arbitrary object may be None
            return x.t == TObj.lit(None)
        return z3.BoolVal(isinstance(x.ty, TNoneT))

    def some(self, x):
        x = wrap(x)
        if not isinstance(x.ty, TOpt):  # already narrowed to the payload type by a flow refinement
            return unwrap(x)
        return unwrap(Val(x.ty.elem, x.ty.val(x.t)))

    def is_tag(self, x, tag):
        return x.ty.is_(tag, x.t)

    def singleton(self, x):
        x = wrap(x)
        ty = TSeq(x.ty)
        return Val(ty, ty.mk(z3.IntVal(1), z3.Store(z3.K(z3.IntSort(), x.t), 0, x.t)))

    def untag(self, x, tag):
        return unwrap(Val(x.ty.alt_ty(tag), x.ty.get(tag, x.t)))

    def none_of(self, opt_ty):
        """The None value of an Optional sort."""
        return unwrap(Val(opt_ty, opt_ty.none()))

    def inject(self, union_ty, tag, x):
        """The value x as the alternative `tag` of a union sort."""
        x = wrap(x)
        return unwrap(Val(union_ty, union_ty.mk(tag, x.t)))

    def defarray(self, name: str, args: list, pred: Callable, n=None):
        """A boolean spec array defined pointwise: the term `name(args)` (a function of the arguments, so every
        mention denotes the same array) and its defining axiom.  Returns (array-as-Seq-like, axiom)."""
        vals = [wrap(x) for x in args]
        key = ("defarray", name, tuple(v.ty.name for v in vals))
        if key not in _UFS:
            _UFS[key] = z3.Function(name, *[v.ty.sort() for v in vals], BoolArr)
        arr = _UFS[key](*[v.t for v in vals])
        i = z3.Int(fresh_name("da"))
        ax = z3.ForAll([i], z3.Select(arr, i) == pred(i), patterns=[z3.Select(arr, i)])
        return _ArrView(arr), ax

    def opaque(self, name: str, args: list, body: Callable):
        """A named spec predicate: an uninterpreted symbol plus its definitional axiom  name(args) <=> body(args),
        triggered only on occurrences of the symbol.  Formulas then mention the predicate as an atom (the solver matches
        atoms instead of re-deriving nested quantifiers); the definition is unfolded where an occurrence needs it."""
        vals = [wrap(x) for x in args]
        key = (name, tuple(v.ty.name for v in vals))
        if key not in _OPAQUE:
            f = z3.Function(name, *[v.ty.sort() for v in vals], z3.BoolSort())
            bound = [z3.Const(f"{name}#{i}", v.ty.sort()) for i, v in enumerate(vals)]
            b = body(*[unwrap(Val(v.ty, c)) for v, c in zip(vals, bound)])
            _OPAQUE[key] = (f, z3.ForAll(bound, f(*bound) == b, patterns=[f(*bound)]))
        return _OPAQUE[key][0](*[v.t for v in vals])

    # uninterpreted spec functions with an executable definition on the CONC side
    def uf(self, name: str, ret: Ty, *args):
        vals = [wrap(x) for x in args]
        key = (name, tuple(v.ty.name for v in vals), ret.name)
        if key not in _UFS:
            _UFS[key] = z3.Function(name, *[v.ty.sort() for v in vals], ret.sort())
        return unwrap(Val(ret, _UFS[key](*[v.t for v in vals])))

    # spec functions
    def cnt(self, mask, j):
        return f_cnt(mask.ty.arr(mask.t), j)

    def prod(self, s, a, b):
        return f_prod(s.ty.arr(s.t), a, b)

    def dot(self, a, b, n):
        return f_dot(a.ty.arr(a.t), b.ty.arr(b.t), n)

    def div(self, a, b):  # python floor division for b > 0
        return a / b

    def mod(self, a, b):
        return a % b

    def min(self, a, b):
        return z3.If(a <= b, a, b)

    def str_le(self, a, b):
        return str_le_fn()(a.t if isinstance(a, Val) else a, b.t if isinstance(b, Val) else b)


_UFS: dict = {}
CONC_IMPL: dict[str, Callable] = {}  # name -> python implementation of an uninterpreted spec function


class _Conc:
    """Concrete interpretation on real Python objects."""
    symbolic = False

    def opaque(self, name, args, body):
        return bool(body(*args))

    def uf(self, name, ret, *args):
        return CONC_IMPL[name](*args)

    def defarray(self, name, args, pred, n=None):
        return [bool(pred(i)) for i in range(n)], True

    def slice_none(self):
        return slice(None)

    def forall_key(self, ty, fn, pattern=None, domain=()):
        return all(bool(fn(k)) for k in domain)

    def in_set(self, st, k):
        return k in st

    def exists_in_set(self, st, fn):
        return any(bool(fn(k)) for k in st)

    def contains(self, seq, x):
        return x in seq

    def exists_in_dict(self, d, fn):
        return any(bool(fn(k)) for k in d)

    def forall_in_dict(self, d, fn):
        return all(bool(fn(k)) for k in d)

    def len(self, x):
        return len(x)

    def at(self, x, i):
        return x[i]

    def has(self, d, k):
        return k in d

    def and_(self, *xs):  # short-circuit; later conjuncts may be thunks
        for x in xs:
            if not (x() if callable(x) else x):
                return False
        return True

    def or_(self, *xs):
        for x in xs:
            if x() if callable(x) else x:
                return True
        return False

    def not_(self, x):
        return not x

    def implies(self, a, b):
        return (not a) or bool(b() if callable(b) else b)

    def iff(self, a, b):
        return bool(a) == bool(b)

    def ite(self, c, a, b):
        x = a if c else b
        return x() if callable(x) else x

    def exists(self, lo, hi, fn):
        return any(bool(fn(i)) for i in range(lo, hi))

    _TAGS = {"int": lambda x: isinstance(x, int) and not isinstance(x, bool), "slice": lambda x: isinstance(x, slice),
             "str": lambda x: isinstance(x, str), "tuple": lambda x: isinstance(x, tuple),
             "none": lambda x: x is None, "dict": lambda x: isinstance(x, dict),
             "list": lambda x: isinstance(x, list)}

    def is_tag(self, x, tag):
        return self._TAGS[tag](x)

    def singleton(self, x):
        return (x,)

    def untag(self, x, tag):
        return x

    def inject(self, union_ty, tag, x):
        return x

    def eq(self, a, b):
        return a == b

    def true(self):
        return True

    def forall(self, lo, hi, fn, pattern=None):
        for i in range(lo, hi):
            b = fn(i)
            if isinstance(b, dict):
                b = all(b.values())
            elif isinstance(b, (list, tuple)):
                b = all(b)
            if not b:
                return False
        return True

    def is_none(self, x):
        return x is None

    def some(self, x):
        return x

    def cnt(self, mask, j):
        return sum(1 for m in mask[:j] if m)

    def prod(self, s, a, b):
        return math.prod(s[a:b]) if a < b else 1

    def dot(self, a, b, n):
        return sum(a[i] * b[i] for i in range(n))

    def div(self, a, b):
        return a // b

    def mod(self, a, b):
        return a % b

    def min(self, a, b):
        return min(a, b)

    def str_le(self, a, b):
        return a <= b


SYM = _Sym()
CONC = _Conc()
