"""Lemma library (DESIGN 3.2).  Every lemma handed to the VCs as a hypothesis (`spec.lemma_axioms()`) is proved here
on every run, by explicit induction: each step is one solver query over the *defining axioms* of the spec functions
(`spec.axioms()`) plus the induction hypothesis / earlier lemmas.  Nothing here depends on the code under test."""
from __future__ import annotations

import time

import z3

from . import spec
from .spec import BoolArr, IntArr, f_cnt, f_dot, f_prod


def _prove(name, hyps, goal, extra_axioms=(), timeout_ms=20000, with_axioms=True):
    """One induction step / arithmetic fact.  Nonlinear integer goals are seed-sensitive in z3 (the same query takes 1 s,
    5 s or times out): several seeds are tried, then cvc5; a pure arithmetic fact is posed without the spec axioms."""
    dt = 0.0
    r, s = z3.unknown, None
    backend = "z3"
    for seed in (0, 3, 2, 1):
        s = z3.Solver()
        s.set("rlimit", int(timeout_ms) * 4000)  # (deterministic budget, see solve.check)
        s.set("timeout", max(40 * int(timeout_ms), 900000))  # wall clock: a distant safety net only (overloaded machines)
        s.set("random_seed", seed)
        if with_axioms:
            for a in spec.axioms():
                s.add(a)
        for a in extra_axioms:
            s.add(a)
        for h in hyps:
            s.add(h)
        s.add(z3.Not(goal))
        t0 = time.time()
        r = s.check()
        dt += time.time() - t0
        if r == z3.unsat:
            backend = "z3" if seed == 0 else f"z3(seed={seed})"
            break
    if r != z3.unsat:
        from .solve import cvc5_check
        ans = cvc5_check(s.to_smt2().replace("(check-sat)", ""), 4 * timeout_ms // 1000)
        if ans == "unsat":
            r = z3.unsat
            backend = "cvc5"
    return {"name": name, "status": "proved" if r == z3.unsat else str(r), "s": round(dt, 4), "backend": backend}


def run_all() -> list[dict]:
    out = []
    m = z3.Const("lm_m", BoolArr)
    s = z3.Const("lm_s", IntArr)
    j, a, b = z3.Ints("lm_j lm_a lm_b")
    # L1: 0 <= cnt(m,j) <= j   (induction on j)
    L1 = lambda x: z3.And(0 <= f_cnt(m, x), f_cnt(m, x) <= x)  # noqa: E731
    out.append(_prove("L1.base", [], L1(z3.IntVal(0))))
    out.append(_prove("L1.step", [j >= 0, L1(j)], L1(j + 1)))
    # L1b: 0<=a<=b => cnt(a)<=cnt(b) and a-cnt(a) <= b-cnt(b)  (induction on b from a)
    L1b = lambda x, y: z3.And(f_cnt(m, x) <= f_cnt(m, y), x - f_cnt(m, x) <= y - f_cnt(m, y))  # noqa: E731
    out.append(_prove("L1b.base", [a >= 0], L1b(a, a)))
    out.append(_prove("L1b.step", [a >= 0, b >= a, L1b(a, b)], L1b(a, b + 1)))
    # L1c: strict step, from L1b(a+1, b) and one unfolding
    out.append(_prove("L1c", [a >= 0, a < b, L1b(a + 1, b)],
                      z3.And(z3.Implies(z3.Select(m, a), f_cnt(m, a) < f_cnt(m, b)),
                             z3.Implies(z3.Not(z3.Select(m, a)), a - f_cnt(m, a) < b - f_cnt(m, b)))))
    # P1: a<b => prod(s,a,b) = s[a]*prod(s,a+1,b)   (induction on b from a+1)
    P1 = lambda x, y: f_prod(s, x, y) == z3.Select(s, x) * f_prod(s, x + 1, y)  # noqa: E731
    out.append(_prove("P1.base", [], P1(a, a + 1)))
    out.append(_prove("P1.step", [a < b, P1(a, b)], P1(a, b + 1)))
    # P2: positivity: all s[i]>0 on [a,b) => prod(s,a,b) > 0   (induction on b)
    i = z3.Int("lm_i")
    pos = lambda lo, hi: z3.ForAll([i], z3.Implies(z3.And(lo <= i, i < hi), z3.Select(s, i) > 0))  # noqa: E731
    out.append(_prove("P2.base", [], f_prod(s, a, b) > 0 if False else z3.Implies(a >= b, f_prod(s, a, b) > 0)))
    out.append(_prove("P2.step", [a <= b, pos(a, b + 1), z3.Implies(pos(a, b), f_prod(s, a, b) > 0)],
                      f_prod(s, a, b + 1) > 0))
    # L7b: C pointwise complement of M  =>  cnt(C,j) = j - cnt(M,j)   (induction on j)
    C = z3.Const("lm_C", BoolArr)
    compl = z3.ForAll([i], z3.Select(C, i) == z3.Not(z3.Select(m, i)))
    L7 = lambda x: f_cnt(C, x) == x - f_cnt(m, x)  # noqa: E731
    out.append(_prove("L7b.base", [compl], L7(z3.IntVal(0))))
    out.append(_prove("L7b.step", [compl, j >= 0, L7(j)], L7(j + 1)))
    # L8: all True on [0,n) => cnt(m,k) = k for 0<=k<=n ; all False => cnt = 0   (induction on k)
    n = z3.Int("lm_n")
    allT = z3.ForAll([i], z3.Implies(z3.And(0 <= i, i < n), z3.Select(m, i)))
    allF = z3.ForAll([i], z3.Implies(z3.And(0 <= i, i < n), z3.Not(z3.Select(m, i))))
    out.append(_prove("L8.base", [allT], f_cnt(m, 0) == 0))
    out.append(_prove("L8.step", [allT, 0 <= j, j < n, f_cnt(m, j) == j], f_cnt(m, j + 1) == j + 1))
    out.append(_prove("L8'.step", [allF, 0 <= j, j < n, f_cnt(m, j) == 0], f_cnt(m, j + 1) == 0))
    # L9 (congruence): m, C agree on [0,k) => cnt(m,k) = cnt(C,k)   (induction on k; C reused as the second array)
    agree = lambda x: z3.ForAll([i], z3.Implies(z3.And(0 <= i, i < x), z3.Select(m, i) == z3.Select(C, i)))  # noqa: E731
    L9 = lambda x: z3.Implies(agree(x), f_cnt(m, x) == f_cnt(C, x))  # noqa: E731
    out.append(_prove("L9.base", [], L9(z3.IntVal(0))))
    out.append(_prove("L9.step", [j >= 0, L9(j)], L9(j + 1)))
    # M1 (mixed-radix step): l>=0, d>0, t>0  =>  ((l div t) mod d)*t + l mod t = l mod (d*t)
    l, d, t = z3.Ints("lm_l lm_d lm_t")
    out.append(_prove("M1.mixed-radix-step", [l >= 0, d > 0, t > 0],
                      ((l / t) % d) * t + l % t == l % (d * t), with_axioms=False))
    # M2 (div-div): (x div b) div a = x div (a*b)
    out.append(_prove("M2.div-div", [l >= 0, d > 0, t > 0], (l / t) / d == l / (d * t), with_axioms=False))
    # L4 (ravel o unravel = id, any rank): sh positive, st[i] = prod(sh,i+1,n), key[i] = (l div st[i]) mod sh[i],
    #   0 <= l < prod(sh,0,n)  ==>  dot(key, st, n) = l.     Induction on the prefix length a with
    #   Q(a): dot(key,st,a) = l - l mod prod(sh,a,n);  the step uses M1 (proved above) at d=sh[a], t=prod(sh,a+1,n).
    sh, stv, key = z3.Const("lm_sh", IntArr), z3.Const("lm_st", IntArr), z3.Const("lm_key", IntArr)
    T = lambda x: f_prod(sh, x, n)  # noqa: E731
    Q = lambda x: f_dot(key, stv, x) == l - l % T(x)  # noqa: E731
    setup = [n >= 0, z3.ForAll([i], z3.Implies(z3.And(0 <= i, i < n), z3.Select(sh, i) > 0)),
             z3.ForAll([i], z3.Implies(z3.And(0 <= i, i < n), z3.Select(stv, i) == f_prod(sh, i + 1, n))),
             z3.ForAll([i], z3.Implies(z3.And(0 <= i, i < n),
                                       z3.Select(key, i) == (l / z3.Select(stv, i)) % z3.Select(sh, i))),
             0 <= l, l < T(0)]
    out.append(_prove("L4.base", setup, Q(z3.IntVal(0))))
    aa = z3.Int("lm_aa")
    d_, t_ = z3.Select(sh, aa), f_prod(sh, aa + 1, n)
    m1_inst = z3.Implies(z3.And(l >= 0, d_ > 0, t_ > 0), ((l / t_) % d_) * t_ + l % t_ == l % (d_ * t_))
    p1_inst = T(aa) == d_ * t_  # P1 at (aa, n), proved above
    p2_inst = t_ > 0  # P2 on [aa+1, n)
    out.append(_prove("L4.step.P1-instance", setup + [0 <= aa, aa < n], p1_inst, extra_axioms=spec.lemma_axioms()))
    out.append(_prove("L4.step.P2-instance", setup + [0 <= aa, aa < n], p2_inst, extra_axioms=spec.lemma_axioms()))
    # the step is split: (i) instantiation facts from the set-up, (ii) a pure arithmetic core over fresh integers
    D0, D1, K, ST, TA, TA1 = z3.Ints("lm_D0 lm_D1 lm_K lm_ST lm_TA lm_TA1")
    facts = z3.And(f_dot(key, stv, aa + 1) == f_dot(key, stv, aa) + z3.Select(key, aa) * z3.Select(stv, aa),
                   z3.Select(stv, aa) == t_, z3.Select(key, aa) == (l / z3.Select(stv, aa)) % d_)
    out.append(_prove("L4.step.facts", setup + [0 <= aa, aa < n], facts))
    core_h = [D1 == D0 + K * ST, ST == TA1, K == (l / TA1) % d, TA == d * TA1, D0 == l - l % TA, l >= 0, d > 0, TA1 > 0,
              ((l / TA1) % d) * TA1 + l % TA1 == l % (d * TA1)]
    out.append(_prove("L4.step.core", core_h, D1 == l - l % TA1, with_axioms=False))
    out.append(_prove("L4.final", setup + [Q(n)], f_dot(key, stv, n) == l))
    # L4b (in range): 0 <= key[i] < sh[i]
    out.append(_prove("L4b.in-range", setup + [0 <= aa, aa < n, p2_inst],
                      z3.And(0 <= z3.Select(key, aa), z3.Select(key, aa) < z3.Select(sh, aa))))
    return out


def l4_instance(sh_, st_, key_, l_, n_):
    """L4 (proved above for arbitrary constants, hence for any terms): the row-major linear index of the unravelled
    key is the index itself.  Returns  setup(sh_, st_, key_, l_, n_) => dot(key_, st_, n_) = l_  for use as a hypothesis
    (a lemma instance) in a VC."""
    i = z3.Int("lm_i")
    setup = z3.And(n_ >= 0, z3.ForAll([i], z3.Implies(z3.And(0 <= i, i < n_), z3.Select(sh_, i) > 0)),
                   z3.ForAll([i], z3.Implies(z3.And(0 <= i, i < n_), z3.Select(st_, i) == f_prod(sh_, i + 1, n_))),
                   z3.ForAll([i], z3.Implies(z3.And(0 <= i, i < n_),
                                             z3.Select(key_, i) == (l_ / z3.Select(st_, i)) % z3.Select(sh_, i))),
                   0 <= l_, l_ < f_prod(sh_, 0, n_))
    return z3.Implies(setup, f_dot(key_, st_, n_) == l_)


if __name__ == "__main__":
    for r in run_all():
        print(r)
