"""Per-property orchestration: lemma library, proof rung, bounded rung, known findings, replay files, evidence."""
from __future__ import annotations

import base64
import importlib
import json
import multiprocessing as mp
import os
import sys
import time
import traceback
from dataclasses import dataclass, field
from typing import Any, Callable

from .common import REPO, VERIF, jsonable, seed as get_seed, setup_env


@dataclass
class ProofItem:
    contract: Any
    gen: Callable | None = None  # custom generator for the bounded evaluation of the same contract
    call: Callable | None = None  # how to call the real function with the args dict
    bounds: dict | None = None
    bounded_only: bool = False  # function outside the engine's subset: contract checked on the bounded rung only
    why_bounded: str = ""
    thorough_only: bool = False  # the proof takes long: obligations are discharged in the thorough tier only
    registry: Callable | None = None  # the callee contracts of this function, when they differ from the property's registry


@dataclass
class Failure:
    check: str  # name of the check / function
    obligation: str  # named contract clause
    what: str  # one line
    case: Any  # JSON-able description sufficient to replay
    rung: str = "bounded"  # 'proof-replayed' | 'bounded' | 'proof-exact-unreplayed'
    pickled: str | None = None
    detail: Any = None


@dataclass
class BoundedReport:
    name: str
    evaluations: int = 0
    distinct_nontrivial: int = 0
    rule: str = ""
    samples: list = field(default_factory=list)
    failures: list = field(default_factory=list)  # list[Failure]
    exhaustive: bool = False
    bounds: Any = None
    notes: list = field(default_factory=list)
    wall_s: float = 0.0


def _pickle(x) -> str | None:
    try:
        import cloudpickle
        return base64.b64encode(cloudpickle.dumps(x)).decode()
    except Exception:  # noqa: BLE001
        return None


_BASELINE: dict | None = None


def _baseline(p: dict) -> dict:
    """The committed record of the last clean proof of this function: sha256 of its source and the obligations proved."""
    global _BASELINE
    if _BASELINE is None:
        try:
            with open(os.path.join(VERIF, "proof_baseline.json")) as fh:
                _BASELINE = json.load(fh)
        except OSError:
            _BASELINE = {}
    return _BASELINE.get(p["qualname"], {})


def _changed_since_baseline(p: dict) -> bool:
    b = _baseline(p)
    return bool(b) and b.get("sha256") != (p.get("info") or {}).get("sha256")


def _baseline_proved(p: dict) -> set:
    return set(_baseline(p).get("proved", []))


def _unpickle(s: str):
    import cloudpickle
    return cloudpickle.loads(base64.b64decode(s))


# -- worker entry points (top-level for multiprocessing) -----------------------------------------------------
def _proof_worker(arg):
    prop_mod, idx, tier, sd = arg
    setup_env()
    from . import proof
    mod = importlib.import_module(prop_mod)
    items = mod.proof_items()
    it: ProofItem = items[idx]
    reg = it.registry() if it.registry else mod.registry()
    out = {"function": it.contract.name, "qualname": it.contract.qualname}
    try:
        skip_proof = it.bounded_only or (it.thorough_only and tier == "quick")
        if skip_proof:
            why = it.why_bounded if it.bounded_only else \
                "slow proof: the obligations of this function are discharged in the thorough tier only"
            out["proof"] = {"function": it.contract.name, "qualname": it.contract.qualname, "rung": "bounded-only",
                            "reason": why, "obligations": 0, "discharged": 0, "refuted": [], "unknown": [],
                            "solver_s": 0.0}
        out["bounded"] = proof.bounded_contract(it.contract, tier, sd, it.gen, it.call, it.bounds)
        if not skip_proof:
            out["proof"] = proof.prove_contract(it.contract, reg, tier, it.call,
                                                hurry=bool(out["bounded"]["failures"]))
        for f in out["bounded"]["failures"]:
            f["pickled"] = _pickle(f["args"])
            f["args"] = jsonable(f["args"])
        for r in out["proof"].get("refuted", []):
            if "replay_args" in r:
                r["pickled"] = _pickle(r["replay_args"])
                r["replay_args"] = jsonable(r["replay_args"])
    except Exception as e:  # noqa: BLE001
        out["error"] = f"{type(e).__name__}: {e}\n{traceback.format_exc()[-2000:]}"
    return out


def _bounded_worker(arg):
    prop_mod, name, tier, sd, shard, nshards = arg
    setup_env()
    mod = importlib.import_module(prop_mod)
    fn = dict(mod.bounded_checks())[name]
    t0 = time.time()
    import contextlib
    import io
    import warnings
    warnings.simplefilter("ignore")
    try:
        with contextlib.redirect_stdout(io.StringIO()):  # pipefunc prints progress/notes; keep the check output clean
            rep: BoundedReport = fn(tier, sd, shard, nshards) if nshards > 1 else fn(tier, sd)
        rep.wall_s = round(time.time() - t0, 2)
        return rep
    except Exception as e:  # noqa: BLE001
        return {"error": f"{name}: {type(e).__name__}: {e}\n{traceback.format_exc()[-3000:]}"}


def _merge_shards(reps: list) -> list:
    out: dict[str, BoundedReport] = {}
    res = []
    for r in reps:
        if isinstance(r, dict):
            res.append(r)
            continue
        if r.name not in out:
            out[r.name] = r
            res.append(r)
        else:
            m = out[r.name]
            m.evaluations += r.evaluations
            m.distinct_nontrivial += r.distinct_nontrivial
            m.samples += r.samples[:1]
            m.failures += r.failures
            m.notes += r.notes
            m.exhaustive = m.exhaustive and r.exhaustive
            m.wall_s = max(m.wall_s, r.wall_s)
    return res


# -- known findings ------------------------------------------------------------------------------------------
def load_known(prop: str) -> list[dict]:
    path = os.path.join(VERIF, "known_findings.jsonl")
    out = []
    if os.path.exists(path):
        for line in open(path):
            line = line.strip()
            if line and not line.startswith("#"):
                d = json.loads(line)
                if d.get("property") == prop:
                    out.append(d)
    return out


def match_known(f: Failure, known: list[dict]) -> dict | None:
    import known_matchers
    for k in known:
        if k.get("status") != "known":
            continue
        m = getattr(known_matchers, k["matcher"], None)
        if m is None:
            continue
        try:
            if m(f):
                return k
        except Exception:  # noqa: BLE001
            continue
    return None


# -- main ----------------------------------------------------------------------------------------------------
def run_property(pid: str, tier: str) -> int:
    setup_env()
    t0 = time.time()
    sd = get_seed()
    prop_mod = f"props.{pid}"
    mod = importlib.import_module(prop_mod)
    ncpu = min(16, os.cpu_count() or 4)
    failures: list[Failure] = []
    checker_errors: list[str] = []
    # 1. lemma library
    lemma_reports = []
    if getattr(mod, "USES_LEMMAS", True) and mod.proof_items():
        from pyvc import lemmas
        lemma_reports = lemmas.run_all()
        for lr in lemma_reports:
            if lr["status"] != "proved":
                checker_errors.append(f"lemma {lr['name']} not proved: {lr['status']}")
    # 2. proof rung + bounded evaluation of the same contracts
    items = mod.proof_items()
    ctx = mp.get_context("fork")
    from concurrent.futures import ProcessPoolExecutor  # non-daemonic workers (checks may start Manager processes)
    names = [n for n, _ in mod.bounded_checks()]
    with ProcessPoolExecutor(ncpu, mp_context=ctx) as pool:
        pf = [pool.submit(_proof_worker, (prop_mod, i, tier, sd)) for i in range(len(items))]
        bf = []
        for n, chk in mod.bounded_checks():
            k = max(1, int(getattr(chk, "shards", 1)))
            bf += [pool.submit(_bounded_worker, (prop_mod, n, tier, sd, sh, k)) for sh in range(k)]
        proof_out = [f.result() for f in pf]
        bounded_out = _merge_shards([f.result() for f in bf])
    functions = []
    n_obl = n_dis = 0
    solver_s = 0.0
    proof_lost = []
    samples = []
    evaluations = 0
    distinct = 0
    for out in proof_out:
        if "error" in out:
            checker_errors.append(f"{out['function']}: {out['error']}")
            continue
        p, b = out["proof"], out["bounded"]
        n_obl += p["obligations"]
        n_dis += p["discharged"]
        solver_s += p.get("solver_s", 0.0)
        functions.append({"qualname": p["qualname"], "rung": p["rung"], "obligations": p["obligations"],
                          "discharged": p["discharged"], "backends": p.get("backends", []),
                          "solver_s": p.get("solver_s", 0.0), "reason": p.get("reason"),
                          "source": p.get("info"), "bounded_evaluations": b["evaluations"],
                          "bounded_returned": b["returned"], "bounded_raised": b["raised"],
                          "bounded_exhaustive_within_bounds": b["exhaustive_within_bounds"], "bounds": b["bounds"],
                          # vacuity guard: return paths whose hypotheses were tested for refutability; those found
                          # unreachable by the function's own conditions (dead code, not counted against the proof)
                          "vacuity_checks": p.get("vacuity_checks", 0), "dead_return_paths": p.get("dead_return_paths", 0)})
        evaluations += b["evaluations"]
        distinct += b["distinct"]
        samples += [{"function": p["function"], **s} for s in b["samples"][:1]]
        if p["rung"] == "vacuous":
            checker_errors.append(f"{p['function']}: {p.get('reason') or 'zero obligations generated'}")
        if b["evaluations"] == 0:
            checker_errors.append(f"{p['function']}: contract never evaluated on the real function "
                                  f"(vacuous precondition or generator)")
        if b["n_contract_errors"]:
            checker_errors.append(f"{p['function']}: contract raised while being evaluated: {b['contract_errors'][:1]}")
        for r in p.get("refuted", []):
            rp = r.get("replay", {})
            if rp.get("failures"):
                failures.append(Failure(p["function"], r["name"], f"{p['function']}: obligation {r['name']} refuted by "
                                        f"{r['backend']}; counter-model replayed on the real function: "
                                        f"{rp['failures']} with args {r.get('replay_args')} -> {rp.get('outcome')}",
                                        {"qualname": p["qualname"], "args": r.get("replay_args"),
                                         "violated": rp["failures"]},
                                        "proof-replayed", r.get("pickled"), {"goal": r.get("goal"), "model": r.get("model")}))
            elif rp.get("status") == "model-unreadable" and r.get("exact"):
                failures.append(Failure(p["function"], r["name"], f"{p['function']}: exact obligation {r['name']} "
                                        f"refuted by {r['backend']}, model not concretisable",
                                        {"qualname": p["qualname"], "goal": r.get("goal"), "model": r.get("model")},
                                        "proof-exact-unreplayed"))
            elif _changed_since_baseline(p) and r["name"] in _baseline_proved(p) and not b["failures"] and r.get("exact") \
                    and not rp.get("outcome"):
                # (only for *exact* obligations - no loop invariant or callee contract abstracts the path - whose
                #  counter-model could not be run at all.  A counter-model that was run on the real function and met the
                #  contract there shows that the refutation comes from the encoding, not from the code: a behaviour-
                #  preserving rewrite into a form the engine models less precisely must not raise an alarm.  In the seed
                #  matrix no change was ever reported through this rule alone, and it once raised a false alarm on a
                #  refactoring - harmless/C07-h3 - through an engine imprecision that has since been repaired.)
                # an obligation that was discharged for the committed source of this function is refuted for the
                # current source, and neither the counter-model nor the bounded evaluation gives a failing input
                failures.append(Failure(p["function"], r["name"],
                                        f"{p['function']}: obligation {r['name']} (line {r['line']}), proved for the "
                                        f"baseline source, is refuted by {r['backend']} for the current source; the "
                                        f"counter-model does not replay on the real function and the bounded "
                                        f"evaluation ({b['evaluations']} inputs) found no failing input",
                                        {"qualname": p["qualname"], "obligation": r["name"], "line": r["line"],
                                         "goal": r.get("goal"), "model": r.get("model"), "replay": jsonable(rp),
                                         "solver": r["backend"], "baseline_sha256": _baseline(p).get("sha256"),
                                         "current_sha256": (p.get("info") or {}).get("sha256")},
                                        "proof-exact-unreplayed"))
            else:
                proof_lost.append({"function": p["function"], "obligation": r["name"], "line": r["line"],
                                   "why": "counter-model is spurious on the real function (abstraction) or unreadable",
                                   "replay": jsonable(rp)})
        for r in p.get("unknown", []):
            proof_lost.append({"function": p["function"], "obligation": r["name"], "line": r["line"],
                               "why": f"solver: {r.get('reason')}", "goal": r.get("goal")})
        if p["rung"] == "unsupported":
            proof_lost.append({"function": p["function"], "obligation": "*", "why": p.get("reason")})
        for f in b["failures"]:
            failures.append(Failure(p["function"], ";".join(f["failures"]),
                                    f"{p['function']}: contract clause {f['failures']} fails on the real function "
                                    f"for args {f['args']} -> {f['outcome']} {str(f['observed'])[:120]}",
                                    {"qualname": p["qualname"], "args": f["args"], "violated": f["failures"]},
                                    "bounded", f.get("pickled")))
    bounded_summ = []
    for rep in bounded_out:
        if isinstance(rep, dict):
            checker_errors.append(rep["error"])
            continue
        evaluations += rep.evaluations
        distinct += rep.distinct_nontrivial
        samples += rep.samples[:2]
        failures += rep.failures
        bounded_summ.append({"check": rep.name, "evaluations": rep.evaluations,
                             "distinct_nontrivial": rep.distinct_nontrivial, "rule": rep.rule,
                             "exhaustive": rep.exhaustive, "bounds": rep.bounds, "notes": rep.notes,
                             "failures": len(rep.failures), "wall_s": rep.wall_s})
        if rep.evaluations == 0:
            checker_errors.append(f"bounded check {rep.name} evaluated nothing")
    # de-duplicate failures per (check, obligation): keep the first few
    known = load_known(pid)
    reported, known_hits = [], {}
    seen_keys: dict[tuple, int] = {}
    for f in failures:
        k = match_known(f, known)
        if k is not None:
            known_hits.setdefault(k["id"], [k, 0])[1] += 1
            continue
        key = (f.check, f.obligation)
        seen_keys[key] = seen_keys.get(key, 0) + 1
        if seen_keys[key] <= 2 and len(reported) < 12:
            reported.append(f)
    os.makedirs(os.path.join(VERIF, "replays"), exist_ok=True)
    lines = []
    for i, f in enumerate(reported):
        path = os.path.join("replays", f"{pid}-{i:02d}-{_slug(f.check)}.json")
        with open(os.path.join(VERIF, path), "w") as fh:
            json.dump({"property": pid, "check": f.check, "obligation": f.obligation, "rung": f.rung, "what": f.what,
                       "case": jsonable(f.case), "pickled": f.pickled, "detail": jsonable(f.detail),
                       "repo": REPO, "tier": tier, "seed": sd}, fh, indent=1)
        suffix = " no-failing-input-found" if f.rung == "proof-exact-unreplayed" else ""
        lines.append(f"VIOLATION property={pid} replay={path}{suffix}")
        print(f"  -> {f.what[:600]}")
    for kid, (k, cnt) in known_hits.items():
        print(f"KNOWN-FINDING: property={pid} {k['what']} [{kid}; {cnt} failing case(s) matched]")
    for pl in proof_lost:
        print(f"PROOF-LOST: property={pid} {pl['function']} {pl['obligation']}: {str(pl['why'])[:200]} "
              f"(decided by the bounded rung)")
    for ce in checker_errors:
        print(f"CHECKER-ERROR property={pid}: {ce[:1500]}")
    for ln in lines:
        print(ln)
    wall = round(time.time() - t0, 2)
    level = mod.LEVEL
    trusted = list(getattr(mod, "TRUSTED_BASE", []))
    regs = [mod.registry()] + [it.registry() for it in mod.proof_items() if it.registry]
    seen_q: set = set()
    assumed = []
    for rg in regs:
        for c in rg.values():
            if c.trusted and (c.qualname, c.note) not in seen_q:
                seen_q.add((c.qualname, c.note))
                assumed.append({"contract": c.qualname, "note": c.note})
    ev = {
        "property_id": pid, "tier": tier, "seed": sd, "level": level, "wall_s": wall,
        "violations": len(reported),
        "coverage": {
            "explanation": mod.EXPLANATION,
            "obligations": n_obl, "discharged": n_dis,
            "checker_cmd": f"./check {pid} --tier {tier}  (pyvc: VCs from the ast of {REPO}, z3 "
                           f"{_z3v()} then /usr/bin/cvc5 on unknown)",
            "trusted_base": trusted,
            "evaluations": evaluations, "distinct_nontrivial": distinct,
            "rule": mod.RULE, "samples": samples[:8] or [{"note": "no bounded samples"}],
            "exhaustive": False,
            "functions_under_contract": functions,
            "lemmas": lemma_reports, "solver_s": round(solver_s, 3),
            "bounded_checks": bounded_summ, "proof_lost": proof_lost,
            "assumed_contracts": assumed,
            "known_findings_matched": {k: v[1] for k, v in known_hits.items()},
            "checker_errors": checker_errors,
        },
        "assumptions": list(getattr(mod, "ASSUMPTIONS", [])),
    }
    os.makedirs(os.path.join(VERIF, "evidence"), exist_ok=True)
    with open(os.path.join(VERIF, "evidence", f"{pid}.json"), "w") as fh:
        json.dump(ev, fh, indent=1, default=repr)
    proved_fns = sum(1 for f in functions if f["rung"] == "proved")
    print(f"{pid} [{tier}] functions under contract: {len(functions)} ({proved_fns} fully proved), obligations "
          f"{n_dis}/{n_obl} discharged, solver {solver_s:.2f}s, bounded evaluations {evaluations}, "
          f"violations {len(reported)}, known {len(known_hits)}, proof-lost {len(proof_lost)}, wall {wall}s")
    if checker_errors:
        return 3
    return 1 if reported else 0


def _slug(s: str) -> str:
    return "".join(ch if ch.isalnum() else "_" for ch in s)[:40]


def _z3v() -> str:
    import z3
    return z3.get_version_string()


def run_replay(pid: str, path: str) -> int:
    setup_env()
    d = json.load(open(path))
    mod = importlib.import_module(f"props.{pid}")
    if d.get("rung") in ("proof-replayed", "bounded") and "qualname" in (d.get("case") or {}) and d.get("pickled"):
        from . import proof
        items = {it.contract.qualname: it for it in mod.proof_items()}
        it = items[d["case"]["qualname"]]
        fn, _ = proof.resolve_real(it.contract)
        res = proof.check_concrete(it.contract, fn, _unpickle(d["pickled"]), it.call)
        print(json.dumps(jsonable(res), indent=1))
        bad = bool(res.get("failures"))
    elif d.get("rung") == "bounded" and (d.get("case") or {}).get("check"):
        from . import bounded
        bad = bounded.replay(mod, d["case"] | {"pickled": d.get("pickled")})
    elif hasattr(mod, "replay"):
        bad = mod.replay(d)
    else:
        print("no replay available for this record:", d.get("what"))
        return 2
    if bad:
        print(f"VIOLATION property={pid} replay={path}")
        return 1
    print("replay: property holds on this case")
    return 0
