"""Shared environment set-up for every check process."""
from __future__ import annotations

import json
import os
import sys
import time

VERIF = os.path.dirname(os.path.dirname(os.path.abspath(__file__)))
REPO = os.environ.get("VERIF_REPO", "/repo")
GUARD = "PIPEFUNC_VERIF"


def setup_env() -> None:
    """Import pipefunc from the *current working tree* of REPO, never writing into it.

    zarr 3.x is installed but the snapshot was written for zarr 2: the first `import pipefunc` fails unless zarr is
    blocked; pipefunc.map tolerates a missing zarr (suppress(ImportError)).  zarr backends are out of scope.
    """
    os.environ.setdefault("PYTHONDONTWRITEBYTECODE", "1")
    sys.dont_write_bytecode = True
    os.environ[GUARD] = "1"
    if "zarr" not in sys.modules:
        sys.modules["zarr"] = None  # type: ignore[assignment]
    if REPO not in sys.path:
        sys.path.insert(0, REPO)
    if VERIF not in sys.path:
        sys.path.insert(0, VERIF)


def seed() -> int:
    try:
        return int(os.environ.get("VERIF_SEED", "0"))
    except ValueError:
        return 0


def jsonable(x, depth=0):
    """Best-effort conversion of arbitrary values to JSON-compatible structures (for evidence and replay files)."""
    if depth > 8:
        return repr(x)
    if x is None or isinstance(x, (bool, int, float, str)):
        return x
    if isinstance(x, (list, tuple)):
        return [jsonable(i, depth + 1) for i in x]
    if isinstance(x, (set, frozenset)):
        return {"__set__": sorted((jsonable(i, depth + 1) for i in x), key=repr)}
    if isinstance(x, dict):
        return {str(k): jsonable(v, depth + 1) for k, v in x.items()}
    if isinstance(x, slice):
        return {"__slice__": [x.start, x.stop, x.step]}
    return repr(x)


class Timer:
    def __init__(self):
        self.t0 = time.time()

    def s(self) -> float:
        return round(time.time() - self.t0, 3)
