"""Helper for bounded (small-scope) contract checks: a check is `cases` + `check_case(case) -> list of violated
clauses`.  The same `check_case` is used by --replay."""
from __future__ import annotations

import time
import traceback
from typing import Any, Callable, Iterable

from .common import jsonable
from .driver import BoundedReport, Failure, _pickle, _unpickle

REGISTRY: dict[str, Callable] = {}


def run_cases(name: str, cases: Iterable, check_case: Callable[[Any], list], *, rule: str, bounds: Any = None,
              exhaustive: bool = False, nontrivial: Callable[[Any], bool] = lambda c: True,
              key: Callable[[Any], Any] = repr, max_failures: int = 25, time_budget_s: float | None = None,
              describe: Callable[[Any], Any] = jsonable) -> BoundedReport:
    REGISTRY[name] = check_case
    rep = BoundedReport(name=name, rule=rule, bounds=bounds, exhaustive=exhaustive)
    seen = set()
    t0 = time.time()
    for case in cases:
        if time_budget_s is not None and time.time() - t0 > time_budget_s:
            rep.exhaustive = False
            rep.notes.append(f"time budget {time_budget_s}s reached after {rep.evaluations} cases")
            break
        rep.evaluations += 1
        try:
            k = key(case)
        except Exception:  # noqa: BLE001
            k = id(case)
        if k not in seen:
            seen.add(k)
            if nontrivial(case):
                rep.distinct_nontrivial += 1
        try:
            bad = check_case(case)
        except Exception as e:  # noqa: BLE001  -- an exception escaping the oracle/harness is a checker error
            raise RuntimeError(f"harness error in {name} on case {describe(case)!r}: {type(e).__name__}: {e}\n"
                               f"{traceback.format_exc()[-1500:]}") from e
        if len(rep.samples) < 2 and rep.evaluations in (1, 50):
            rep.samples.append({"check": name, "case": describe(case), "violated": bad})
        if bad and len(rep.failures) < max_failures:
            rep.failures.append(Failure(check=name, obligation=_klass(bad),
                                        what=f"{name}: {bad} on case {str(describe(case))[:700]}",
                                        case={"check": name, "case": describe(case), "violated": bad},
                                        rung="bounded", pickled=_pickle(case)))
    return rep


def _klass(bad: list) -> str:
    """Coarse class of a failure (for de-duplicating reports): first clause with literals removed."""
    import re
    t = str(bad[0]).split(":")[0] if ":" in str(bad[0])[:40] else str(bad[0])
    t = re.sub(r"'[^']*'|\d+(\.\d+)?", "_", t)
    return t[:80]


class Check:
    """A bounded check: cases_fn(tier, rng) -> iterable of cases ; check_case(case) -> list of violated clauses."""

    def __init__(self, name: str, cases_fn: Callable, check_case: Callable, rule: str, shards: int = 1, **kw):
        self.name, self.cases_fn, self.check_case, self.rule, self.kw = name, cases_fn, check_case, rule, kw
        self.shards = shards

    def __call__(self, tier: str, seed: int, shard: int = 0, nshards: int = 1) -> BoundedReport:
        import itertools
        import random
        rng = random.Random(seed * 1000003 + sum(map(ord, self.name)))
        kw = dict(self.kw)
        if nshards > 1:
            all_cases = self.cases_fn(tier, rng)
            cases = itertools.islice(all_cases, shard, None, nshards)
            if callable(kw.get("time_budget_s")):
                kw["time_budget_s"] = kw["time_budget_s"](tier)
            if callable(kw.get("bounds")):
                kw["bounds"] = kw["bounds"](tier)
            return run_cases(self.name, cases, self.check_case, rule=self.rule, **kw)
        if callable(kw.get("time_budget_s")):
            kw["time_budget_s"] = kw["time_budget_s"](tier)
        if callable(kw.get("bounds")):
            kw["bounds"] = kw["bounds"](tier)
        return run_cases(self.name, self.cases_fn(tier, rng), self.check_case, rule=self.rule, **kw)


def replay(mod, record: dict) -> bool:
    """Re-run one bounded case from a replay file.  Returns True if the violation reproduces."""
    name = record["check"]
    if name not in REGISTRY:
        # populate the registry by asking the module for its check functions with an empty tier
        for n, fn in mod.bounded_checks():
            if n == name and hasattr(fn, "check_case"):
                REGISTRY[name] = fn.check_case
    if name not in REGISTRY:
        raise LookupError(f"no bounded check named {name}")
    case = _unpickle(record["pickled"]) if record.get("pickled") else record["case"]["case"]
    bad = REGISTRY[name](case)
    print("replayed", name, "->", bad)
    return bool(bad)
