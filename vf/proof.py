"""Proof-rung runner: VCs for one contract, discharge, replay of counter-models on the real function, and the
bounded evaluation of the *same* contract on the real function (CONC interpretation)."""
from __future__ import annotations

import copy
import importlib
import itertools
import random
import time
import traceback
from types import SimpleNamespace
from typing import Any, Callable, Iterator

from pyvc.engine import Contract, Engine, Unsupported
from pyvc.spec import CONC
from pyvc.types import (TBool, TDict, TInt, TNoneT, TOpaque, TOpt, TReal, TRec, TSeq, TSet, TTuple, TUnion, Tagged,
                        Ty)

from .common import REPO, jsonable


# ---------------------------------------------------------------------------------------------------------
def resolve_real(c: Contract):
    """The real callable from the current working tree.  Returns (callable(**kwargs), kind)."""
    path, name = c.qualname.split("::")
    mod = importlib.import_module(path[:-3].replace("/", "."))
    parts = name.split(".")
    obj = mod
    owner = None
    for p in parts:
        owner = obj
        obj = owner.__dict__[p] if isinstance(owner, type) else getattr(owner, p)
    import functools
    if isinstance(obj, property):
        return (lambda self: obj.fget(self)), "property"
    if isinstance(obj, functools.cached_property):
        return (lambda self: obj.func(self)), "property"
    if isinstance(obj, (staticmethod, classmethod)):
        return obj.__func__, "static"
    return obj, "function"


def deep(x):
    """deepcopy that also copies objects refusing to be pickled (non-shared caches define __getstate__ to raise)."""
    try:
        return copy.deepcopy(x)
    except Exception:  # noqa: BLE001
        if isinstance(x, dict):
            return {k: deep(v) for k, v in x.items()}
        if isinstance(x, (list, tuple)):
            return type(x)(deep(v) for v in x)
        if hasattr(x, "__dict__"):
            y = object.__new__(type(x))
            y.__dict__.update({k: deep(v) for k, v in x.__dict__.items()})
            return y
        return x


def check_concrete(c: Contract, fn: Callable, args: dict, call: Callable | None = None) -> dict:
    """Evaluate the contract on the real function for concrete arguments."""
    pre = SimpleNamespace(**deep(args))
    try:
        if c.requires and not all(bool(v) for v in c.requires(CONC, pre).values()):
            return {"skipped": "requires"}
    except Exception as e:  # noqa: BLE001
        return {"skipped": f"requires raised {type(e).__name__}"}
    live = deep(args)
    exc = None
    r = None
    try:
        r = call(fn, live) if call else fn(**live)
    except Exception as e:  # noqa: BLE001
        exc = type(e).__name__
        msg = str(e)
    failures = []
    try:
        if exc is None:
            for en, condfn in c.raises:
                if condfn(CONC, pre):
                    failures.append(f"returns-only-when-not[{en}]")
            if c.ensures and not failures:  # (the postcondition presupposes a call that may return at all)
                post = SimpleNamespace(**{p: live[p] for p in c.modifies})
                for name, ok in c.ensures(CONC, pre, r, post).items():
                    if not ok:
                        failures.append(f"ensures[{name}]")
        else:
            conds = [condfn(CONC, pre) for en, condfn in c.raises if en == exc]
            if not any(conds):
                failures.append(f"raises[{exc}]-only-when-specified")
    except Exception as e:  # noqa: BLE001
        return {"contract_error": f"{type(e).__name__}: {e}", "trace": traceback.format_exc()[-800:]}
    return {"outcome": "raise:" + exc if exc else "return", "observed": jsonable(r) if exc is None else msg[:300],
            "failures": failures}


# ---------------------------------------------------------------------------------------------------------
def enum_values(ty: Ty, b: dict, rng: random.Random) -> list:
    """Small-scope values of a type.  b: ints, maxlen, strs."""
    if ty is TInt:
        return list(b.get("ints", (-2, -1, 0, 1, 2, 3)))
    if ty is TBool:
        return [False, True]
    if ty is TReal:
        return list(b.get("reals", (0.0, 0.5, 1.0, 2.0)))
    if isinstance(ty, TNoneT):
        return [None]
    if isinstance(ty, TOpaque):
        if ty.name == "Slice":
            return [slice(None), slice(0, 1), slice(None, None, -1)]
        if ty.name == "Str":
            return list(b.get("strs", ("i", "j", "k")))
        return list(b.get("objs", ("o1", "o2", "o3")))
    if isinstance(ty, TOpt):
        return [None] + enum_values(ty.elem, b, rng)
    if isinstance(ty, TUnion):
        out = []
        for tag, aty in ty.alts:
            if aty is None:
                out.append(ty.to_py(Tagged(tag)))
            else:
                out += [ty.to_py(Tagged(tag, v)) for v in enum_values(aty, b, rng)]
        return out
    if isinstance(ty, TSeq):
        el = enum_values(ty.elem, b, rng)
        out = []
        for n in range(b.get("maxlen", 3) + 1):
            tot = len(el) ** n
            if tot <= b.get("per_len", 200):
                out += list(itertools.product(el, repeat=n))
            else:
                out += [tuple(rng.choice(el) for _ in range(n)) for _ in range(b.get("per_len", 200))]
        return out
    if isinstance(ty, TTuple):
        parts = [enum_values(t, b, rng) for t in ty.items]
        return _prod_sample(parts, b.get("per_len", 200), rng)
    if isinstance(ty, TRec):
        parts = {k: enum_values(t, b, rng) for k, t in ty.fields.items()}
        combos = _prod_sample(list(parts.values()), b.get("per_rec", 300), rng)
        out = []
        for cmb in combos:
            try:
                out.append(ty.to_py(dict(zip(parts.keys(), cmb))))
            except Exception:  # noqa: BLE001  (ill-formed record rejected by the real constructor)
                continue
        return out
    if isinstance(ty, TDict):
        ks = enum_values(ty.key, b, rng)[:3]
        vs = enum_values(ty.val, b, rng)
        out = [{}]
        for n in range(1, min(len(ks), b.get("maxlen", 3)) + 1):
            for keys in itertools.combinations(ks, n):
                for _ in range(3):
                    out.append({k: rng.choice(vs) for k in keys})
        return out
    raise NotImplementedError(f"enumeration of {ty}")


def _prod_sample(parts: list[list], cap: int, rng: random.Random) -> list[tuple]:
    tot = 1
    for p in parts:
        tot *= max(1, len(p))
    if any(len(p) == 0 for p in parts):
        return []
    if tot <= cap:
        return list(itertools.product(*parts))
    return [tuple(rng.choice(p) for p in parts) for _ in range(cap)]


def bounded_contract(c: Contract, tier: str, seed: int, gen: Callable | None = None, call=None,
                     bounds: dict | None = None, fn: Callable | None = None) -> dict:
    """Evaluate contract c on the real function over a small scope.  Labelled *bounded* in the evidence.
    (`fn` is only passed by tools/mutation_selftest.py, to evaluate a mutant instead of the real function.)"""
    if fn is None:
        fn, kind = resolve_real(c)
    import zlib
    rng = random.Random(seed * 7919 + zlib.crc32(c.qualname.encode()) % 1000)
    cap = 4000 if tier == "quick" else 40000
    b = dict(bounds or {})
    if gen is not None:
        cases = list(itertools.islice(gen(rng, tier), cap))
        exhaustive = False
    else:
        parts = [enum_values(t, b, rng) for t in c.params.values()]
        tot = 1
        for p in parts:
            tot *= max(1, len(p))
        exhaustive = tot <= cap
        combos = _prod_sample(parts, cap, rng)
        cases = [dict(zip(c.params.keys(), cmb)) for cmb in combos]
    n_eval = n_skip = n_ret = n_raise = 0
    failures = []
    cerr = []
    seen = set()
    samples = []
    for args in cases:
        res = check_concrete(c, fn, args, call)
        if "skipped" in res:
            n_skip += 1
            continue
        if "contract_error" in res:
            cerr.append({"args": jsonable(args), **res})
            continue
        n_eval += 1
        key = repr(args)
        seen.add(key)
        if res["outcome"] == "return":
            n_ret += 1
        else:
            n_raise += 1
        if len(samples) < 3 and (n_eval % 97 == 1):
            samples.append({"args": jsonable(args), "outcome": res["outcome"], "observed": res["observed"]})
        if res["failures"]:
            failures.append({"args": args, "failures": res["failures"], "outcome": res["outcome"],
                             "observed": res["observed"]})
    return {"function": c.name, "evaluations": n_eval, "distinct": len(seen), "skipped_by_requires": n_skip,
            "returned": n_ret, "raised": n_raise, "exhaustive_within_bounds": exhaustive and gen is None,
            "failures": failures, "contract_errors": cerr[:3], "n_contract_errors": len(cerr), "samples": samples,
            "bounds": jsonable(b) if gen is None else "custom generator"}


# ---------------------------------------------------------------------------------------------------------
def prove_contract(c: Contract, registry: dict[str, Contract], tier: str, call=None, hurry: bool = False) -> dict:
    """Proof rung for one function.  Returns a plain-data report (picklable)."""
    from pyvc import solve
    from pyvc.types import reset_names
    reset_names()
    t0 = time.time()
    eng = Engine(REPO, registry)
    rep: dict[str, Any] = {"function": c.name, "qualname": c.qualname, "rung": "proved", "obligations": 0,
                           "discharged": 0, "results": [], "refuted": [], "unknown": [], "solver_s": 0.0}
    try:
        if c.cases:
            obls, info = [], {}
            for cs in c.cases:
                o, info = eng.vcs(c, cs)
                obls += o
            # exhaustiveness of the case split is itself an obligation
            import z3 as _z3
            from pyvc.engine import Obligation
            from pyvc.spec import SYM
            obls.append(Obligation(c.name, "cases-exhaustive", list(eng.pre_pc[:-1]),
                                   _z3.Or(*[f(SYM, eng.pre) for f in c.cases.values()]), None, "assert", True,
                                   eng.params))
        else:
            obls, info = eng.vcs(c)
    except Unsupported as e:
        rep.update(rung="unsupported", reason=str(e))
        return rep
    except LookupError as e:
        rep.update(rung="unsupported", reason=f"function not found: {e}")
        return rep
    except Exception as e:  # noqa: BLE001
        rep.update(rung="unsupported", reason=f"engine error {type(e).__name__}: {e}",
                   trace=traceback.format_exc()[-1500:])
        return rep
    rep["info"] = info
    timeout = 10000 if tier == "quick" else 60000
    budget_s = 60 if tier == "quick" else 600
    if hurry:  # the bounded rung already has a failing input for this function: only record which VCs break
        timeout, budget_s = 2000, 20
    fn = None
    backends = set()
    finite_budget = [0 if hurry else 6]  # finite-instantiation attempts for undecided goals of this function
    for ob in obls:
        over = rep["solver_s"] > budget_s
        for r in solve.discharge(ob, 1000 if over else timeout, try_cvc5=not (over or hurry)):
            rep["obligations"] += 1
            rep["solver_s"] += r.seconds
            backends.add(r.backend)
            rec = {"name": ob.name, "line": ob.line, "kind": ob.kind, "sub": r.sub, "status": r.status,
                   "backend": r.backend, "s": round(r.seconds, 4), "exact": ob.exact}
            if r.status == "proved":
                rep["discharged"] += 1
            elif r.status == "refuted":
                rec["goal"] = r.goal_text
                rec["model"] = jsonable(r.model)
                # replay on the real function
                if fn is None:
                    fn, _ = resolve_real(c)
                args = r.model or {}
                if any(isinstance(v, tuple) and len(v) == 2 and v[0] == "<unreadable>" for v in args.values()):
                    rec["replay"] = {"status": "model-unreadable"}
                else:
                    try:
                        res = check_concrete(c, fn, args, call)
                    except Exception as e:  # noqa: BLE001
                        res = {"contract_error": f"{type(e).__name__}: {e}"}
                    rec["replay"] = res
                    rec["replay_args"] = args
                rep["refuted"].append(rec)
            else:
                rec["goal"] = r.goal_text
                rec["reason"] = r.reason
                # undecided: look for a candidate counter-model by finite instantiation and replay it on the real code
                replayed = None
                if finite_budget[0] > 0:
                    finite_budget[0] -= 1
                    try:
                        h_, g_ = solve.split_goal(ob.hyps, ob.goal)[r.sub]
                        cands = solve.finite_candidate(h_, g_, ob.params or {}, 7, 20000)
                    except Exception as e:  # noqa: BLE001
                        cands = []
                        rec["finite_error"] = f"{type(e).__name__}: {e}"[:300]
                    rec["finite_candidates"] = len(cands)
                    for cand in cands:
                        if any(isinstance(v, tuple) and len(v) == 2 and v[0] == "<unreadable>" for v in cand.values()):
                            continue
                        if fn is None:
                            fn, _ = resolve_real(c)
                        try:
                            res = check_concrete(c, fn, cand, call)
                        except Exception as e:  # noqa: BLE001
                            res = {"contract_error": f"{type(e).__name__}: {e}"}
                        if res.get("failures"):
                            replayed = res
                            rec.update(status="refuted", backend="z3(finite-instantiation)", model=jsonable(cand),
                                       replay=res, replay_args=cand)
                            break
                if replayed:
                    rep["refuted"].append(rec)
                else:
                    rep["unknown"].append(rec)
            rep["results"].append({k: v for k, v in rec.items() if k not in ("replay_args",)})
    # vacuity guard (with the quantified assumptions too): the hypotheses under which the postconditions of a return
    # were discharged must not be refutable themselves
    seen_h: set = set()
    vac = []
    import z3 as _z3
    for ob in obls:
        if ob.kind != "post":
            continue
        key = tuple(h.get_id() for h in ob.hyps)
        if key in seen_h:
            continue
        seen_h.add(key)
        r_, _, dt_ = solve.check(ob.hyps, _z3.BoolVal(False), 400, use_lemmas=False)
        rep["solver_s"] += dt_
        if r_ == _z3.unsat:
            # unreachable: by the function's own conditions (dead code, fine) or only through what assumed callee
            # contracts promise (a contradictory assumption: nothing is proved of that path)?
            own = [h for h in ob.hyps if h.get_id() not in eng.callee_facts]
            r2_, _, dt2_ = solve.check(own, _z3.BoolVal(False), 400, use_lemmas=False)
            rep["solver_s"] += dt2_
            if r2_ != _z3.unsat:
                vac.append(ob.line)
            else:
                rep["dead_return_paths"] = rep.get("dead_return_paths", 0) + 1
    rep["vacuity_checks"] = len(seen_h)
    if vac:
        rep.update(rung="vacuous", reason=f"the assumptions on the way to the return at line(s) {sorted(set(vac))} are "
                                          f"contradictory: nothing is proved of those paths")
    rep["backends"] = sorted(backends)
    rep["solver_s"] = round(rep["solver_s"], 3)
    rep["wall_s"] = round(time.time() - t0, 3)
    if rep["discharged"] != rep["obligations"] and rep["rung"] != "vacuous":
        rep["rung"] = "proof-incomplete"
    if rep["obligations"] == 0:
        rep["rung"] = "vacuous"
    return rep
