from __future__ import annotations

import argparse
import os
import sys


def main() -> int:
    ap = argparse.ArgumentParser()
    ap.add_argument("pid")
    ap.add_argument("--tier", default=os.environ.get("VERIF_TIER", "quick"), choices=["quick", "thorough"])
    ap.add_argument("--replay")
    a = ap.parse_args()
    from . import driver
    if a.replay:
        return driver.run_replay(a.pid, a.replay)
    return driver.run_property(a.pid, a.tier)


if __name__ == "__main__":
    sys.exit(main())
